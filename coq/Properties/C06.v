(* C06  Exact synthesis is sound and complete for the requested size and basis.
   Statements only; proofs live in Proofs/Search*.v.

   Model: Model/Search.v (encode = get_cnf, decode = _get_circuit_by_model, find_circuit with the
   SAT solver as a parameter, Valid = the class of circuits of the property text) and
   Model/SearchCircuit.v (the same over gate TYPES; "agrees with the model" is evaluation by the
   denotation `den`).  The model is of the code repaired by fixes/D14.patch.
   spec_wf sp says what the constructor and fix_gate / forbid_wire guarantee: the forbidden
   operations are exactly the complement of the basis (in any order), and every imposed
   constraint passed the argument checks of fix_gate / forbid_wire. *)
Require Import Cirbo.Model.Base Cirbo.Model.Gate Cirbo.Model.Den Cirbo.Model.Circuit.
Require Import Cirbo.Model.Search Cirbo.Model.SearchCircuit.
(* SearchCases holds the check functions of the correspondence case files; required here so that it is
   rebuilt together with the property whenever a generated table changes *)
Require Cirbo.Model.SearchCases.
Require Import Cirbo.Generated.SearchTables Cirbo.Generated.GateTypes.
Require Import Cirbo.Proofs.SearchTablesFacts Cirbo.Proofs.SearchFacts Cirbo.Proofs.SearchSound
               Cirbo.Proofs.SearchComplete Cirbo.Proofs.SearchSolve Cirbo.Proofs.SearchTyped
               Cirbo.Proofs.SearchSolverExists.
Require Import Cirbo.Model.SearchPy Cirbo.Generated.SearchEncGen Cirbo.Proofs.SearchEncGenLib Cirbo.Proofs.SearchEncGenB
               Cirbo.Proofs.SearchEncGenC.
Local Open Scope nat_scope.

(* ---------- the regenerated tables (translator T3) ------------------- *)
(* _tt_to_gate_type: the gate type chosen for a 4-bit table t denotes t, index 2p+q *)
Theorem C06_tt_to_gate_type_denotes : forall t p q, den (tt_to_gate_type t) [p; q] = Some (tt_get t p q).
Proof. exact tt_to_gate_type_den. Qed.

Theorem C06_tt_to_gate_type_injective : forall s t, tt_to_gate_type s = tt_to_gate_type t -> s = t.
Proof. exact tt_to_gate_type_inj. Qed.

(* every Operation member's value is the table of the operator it is named after: of the
   denotation of the gate type carrying that operator, and of the generated Python operator *)
Theorem C06_operation_tables : forall o p q, den (op_named_type o) [p; q] = Some (tt_get (op_table o) p q).
Proof. exact op_table_named. Qed.

Theorem C06_operation_tables_operator : forall o p q,
  operator_of (op_named_type o) [inj p; inj q] = Ok (inj (tt_get (op_table o) p q)).
Proof. exact op_table_operator. Qed.

Theorem C06_operation_decodes_to_its_type : forall o, tt_to_gate_type (op_table o) = op_named_type o.
Proof. exact op_table_named_type. Qed.

(* bases are duplicate-free sub-lists of FULL; FULL's tables are all 16 binary operations *)
Theorem C06_bases_duplicate_free : forall nm b, In (nm, b) all_bases -> NoDup b.
Proof. exact bases_nodup. Qed.

Theorem C06_bases_within_full : forall nm b, In (nm, b) all_bases -> incl b basis_FULL.
Proof. exact bases_in_full. Qed.

Theorem C06_full_is_all_operations : forall t, In t (map op_table basis_FULL).
Proof. exact full_tables_everything. Qed.

Theorem C06_operation_values_distinct : forall a b, op_table a = op_table b -> a = b.
Proof. exact op_table_inj. Qed.

(* ---------- the pairwise exactly-one encoding ------------------------ *)
Theorem C06_exactly_one_sound : forall s vs,
  Sat s (exactly_one (map pos vs)) ->
  exists v, In v vs /\ s v = true /\ forall w, In w vs -> s w = true -> w = v.
Proof. exact exactly_one_sound. Qed.

Theorem C06_exactly_one_complete : forall s vs v,
  NoDup vs -> In v vs -> s v = true -> (forall w, In w vs -> s w = true -> w = v) ->
  Sat s (exactly_one (map pos vs)).
Proof. exact exactly_one_complete. Qed.

(* ---------- soundness and completeness of the encoding --------------- *)
(* every satisfying assignment decodes to a circuit of the class *)
Theorem C06_soundness : forall sp s,
  spec_wf sp -> Sat s (encode sp) -> exists c, decode sp s = Ok c /\ Valid sp c.
Proof. exact encode_sound. Qed.

(* every circuit of the class is the decoding of a satisfying assignment *)
Theorem C06_completeness : forall sp c,
  spec_wf sp -> Valid sp c -> exists s, Sat s (encode sp) /\ decode sp s = Ok c.
Proof. exact encode_complete. Qed.

(* the same for the circuit with gate types that _get_circuit_by_model returns *)
Theorem C06_soundness_typed : forall sp s,
  spec_wf sp -> Sat s (encode sp) ->
  exists c, decode_typed tt_to_gate_type sp s = Ok c /\ ValidT tt_to_gate_type sp c.
Proof. exact (typed_sound tt_to_gate_type tt_to_gate_type_den fix_table_tt_to_gate_type). Qed.

Theorem C06_completeness_typed : forall sp c,
  spec_wf sp -> ValidT tt_to_gate_type sp c ->
  exists s, Sat s (encode sp) /\ decode_typed tt_to_gate_type sp s = Ok c.
Proof. exact (typed_complete tt_to_gate_type tt_to_gate_type_den). Qed.

(* ---------- find_circuit with any sound and complete SAT solver ------- *)
Definition solver_sound (solve : list clause -> option asg) : Prop := forall f s, solve f = Some s -> Sat s f.
Definition solver_complete (solve : list clause -> option asg) : Prop := forall f, solve f = None -> forall s, ~ Sat s f.

Theorem C06_find_circuit_returns_valid : forall solve, solver_sound solve ->
  forall sp c, spec_wf sp -> find_circuit_typed tt_to_gate_type solve sp = Ok c -> ValidT tt_to_gate_type sp c.
Proof.
  exact (fun solve Hs => find_circuit_typed_valid tt_to_gate_type tt_to_gate_type_den fix_table_tt_to_gate_type solve Hs).
Qed.

Theorem C06_no_solution_iff_none_exists : forall solve, solver_sound solve -> solver_complete solve ->
  forall sp, spec_wf sp ->
  (find_circuit_typed tt_to_gate_type solve sp = Err NoSolutionError <-> forall c, ~ ValidT tt_to_gate_type sp c).
Proof.
  exact (fun solve Hs Hc => find_circuit_typed_no_solution tt_to_gate_type tt_to_gate_type_den
                              fix_table_tt_to_gate_type solve Hs Hc).
Qed.

(* it does nothing else: a circuit or NoSolutionError *)
Theorem C06_find_circuit_total : forall solve, solver_sound solve ->
  forall sp, spec_wf sp ->
  (exists c, find_circuit_typed tt_to_gate_type solve sp = Ok c) \/
  find_circuit_typed tt_to_gate_type solve sp = Err NoSolutionError.
Proof.
  exact (fun solve Hs => find_circuit_typed_total tt_to_gate_type solve Hs).
Qed.

(* the hypotheses on the solver are satisfiable (brute force over the variables of the formula) *)
Theorem C06_solver_hypotheses_satisfiable : exists solve, solver_sound solve /\ solver_complete solve.
Proof. exact sound_complete_solver_exists. Qed.

(* the executable validity check the harness evaluates on returned circuits decides the class *)
Theorem C06_validb_decides : forall sp c, validb sp c = true <-> Valid sp c.
Proof. exact validb_spec. Qed.

(* ---------- the regenerated encoder (translator T17) ------------------ *)
(* Generated/SearchEncGen.v is written from the statements of CircuitFinderSat on every check (gen_<method>; the
   IDPool as the structured variables, exceptions as `sres`).  fin sp c b1 b2 is the object the regenerated
   constructor builds for the spec, with clause list c and the flags _need_check_db = b1, _need_init_cnf = b2;
   table_ok sp: every row of the model truth table has a cell for each of the 2^n input vectors (the encoder
   indexes them); cons_result (Proofs/SearchEncGenB.v) spells out check_constraint / check_constraint_type /
   cons_clauses as one result.  Each regenerated method EQUALS the hand model above: clause list in order, flags,
   error raised. *)
Theorem C06_encoder_regenerated :
  ((forall sp, gen___init__ (fm_of sp) (sp_r sp) (sp_norm sp) (sp_basis sp) (sp_forb sp) = fin sp [] true true)
  /\ (forall sp c b1 b2, f__cnf (fin sp c b1 b2) = c /\ f__need_check_db (fin sp c b1 b2) = b1 /\
                         f__need_init_cnf (fin sp c b1 b2) = b2)
  /\ (forall sp c b1 b2 g a b, In g (internal sp) -> a < b -> b < g ->
        gen__predecessors_variable (fin sp c b1 b2) g a b = SOk (pos (VS g a b)))
  /\ (forall sp c b1 b2 h g, h < sp_m sp -> g < sp_n sp + sp_r sp ->
        gen__output_gate_variable (fin sp c b1 b2) h g = SOk (pos (VG h g)))
  /\ (forall sp c b1 b2 g t, g < sp_n sp + sp_r sp -> t < 2 ^ sp_n sp ->
        gen__gate_value_variable (fin sp c b1 b2) g t = SOk (pos (VX g t)))
  /\ (forall sp c b1 b2 g p q, g < sp_n sp + sp_r sp -> p <= 1 -> q <= 1 ->
        gen__gate_type_variable (fin sp c b1 b2) g p q = SOk (pos (VF g (nz p) (nz q))))
  /\ (forall sp c b1 b2 t, table_ok sp -> t < 2 ^ sp_n sp ->
        gen__is_dont_cares_input (fin sp c b1 b2) t = SOk (all_dc sp t))
  /\ (forall sp c b1 b2 ls, gen__add_exactly_one_of (fin sp c b1 b2) ls = SOk (fin sp (c ++ exactly_one ls) b1 b2))
  /\ (forall sp c b1 b2, table_ok sp ->
        gen__init_default_cnf_formula (fin sp c b1 b2) = SOk (fin sp (c ++ default_cnf sp) b1 b2))
  /\ (forall sp c b1 b2 g fp sd gt,
        gen_fix_gate (fin sp c b1 b2) g fp sd gt = cons_result sp (FixGate g fp sd gt) c b2)
  /\ (forall sp c b1 b2 from to,
        gen_forbid_wire (fin sp c b1 b2) from to = cons_result sp (ForbidWire from to) c b2)
  /\ (forall sp c b1 binit, table_ok sp ->
        gen_get_cnf (fin sp c b1 binit) =
        let c' := if binit then c ++ default_cnf sp else c in SOk (fin sp c' b1 false, c'))
  /\ (forall sp, table_ok sp -> (forall k, In k (sp_pre sp ++ sp_post sp) -> constraint_ok sp k = true) ->
        gen_session sp = SOk (encode sp)))
  (* the DECODER _get_circuit_by_model on a model list (asg_of_model: v is true iff its positive literal is in
     the list) that says something about every predecessor variable (the source asserts it), sets no output
     variable at an input gate (such names are not in the pool when the solver runs) and selects a pair for
     every gate: the Circuit built by decode + _tt_to_gate_type + build_circuit, or the same error *)
  /\ (forall sp c b1 b2 model ck, model_total sp model -> no_input_outputs sp model ->
        decode sp (asg_of_model model) = Ok ck ->
        gen__get_circuit_by_model (fin sp c b1 b2) model =
        lift (build_circuit (sp_n sp) (to_typed tt_to_gate_type ck))).
Proof. exact encoder_decoder_regenerated. Qed.

(* ---------- non-vacuity ---------------------------------------------- *)
(* x0 xor x1 with a don't-care, one gate, basis XAIG (forbidden = the five other operations),
   normalised, gate 2 fixed to read input 1 through a lone second_predecessor *)
Definition ex_spec : spec :=
  mkSpec 2 [[Some false; Some true; None; Some false]] 1
    (map op_table basis_XAIG)
    [(true, true, true, true); (false, true, false, true); (false, false, true, true);
     (false, false, false, false); (true, false, true, false)]
    true [FixGate 2 None (Some 1) None] [].

Definition ex_sigma : asg :=
  asg_of [VS 2 0 1; VG 0 2; VX 1 1; VX 0 3; VX 1 3; VX 2 1; VF 2 false true; VF 2 true false].

Example C06_example_wf : spec_wf ex_spec.
Proof. apply spec_wfb_spec. vm_compute. reflexivity. Qed.

Example C06_example_satisfiable : Sat ex_sigma (encode ex_spec).
Proof. apply satb_spec. vm_compute. reflexivity. Qed.

Example C06_example_decodes :
  decode_typed tt_to_gate_type ex_spec ex_sigma = Ok (mkTCkt [mkTG 0 1 XOR] [2]).
Proof. vm_compute. reflexivity. Qed.

Example C06_example_valid : ValidT tt_to_gate_type ex_spec (mkTCkt [mkTG 0 1 XOR] [2]).
Proof.
  destruct (C06_soundness_typed ex_spec ex_sigma C06_example_wf C06_example_satisfiable) as [c [Hd Hv]].
  rewrite C06_example_decodes in Hd. inversion Hd; subst. exact Hv.
Qed.

(* the regenerated session on the example spec (its table is well shaped, its constraint accepted) *)
Example C06_example_regenerated_session : table_ok ex_spec /\ gen_session ex_spec = SOk (encode ex_spec).
Proof.
  split; [repeat constructor|].
  apply encoder_regenerated; [repeat constructor|].
  intros k Hk. pose proof C06_example_wf as W. apply (wf_cons _ W). exact Hk.
Qed.

(* the regenerated decoder on the model list of ex_sigma: the hypotheses of the decoder clause hold *)
Definition ex_model : list lit :=
  map pos [VS 2 0 1; VG 0 2; VX 1 1; VX 0 3; VX 1 3; VX 2 1; VF 2 false true; VF 2 true false].

Example C06_example_regenerated_decoder :
  model_total ex_spec ex_model /\ no_input_outputs ex_spec ex_model /\
  decode ex_spec (asg_of_model ex_model) = Ok (mkCkt [mkSG 0 1 (false, true, true, false)] [2]) /\
  gen__get_circuit_by_model (fin ex_spec [] true true) ex_model =
  lift (build_circuit 2 (mkTCkt [mkTG 0 1 XOR] [2])).
Proof.
  assert (Ht : model_total ex_spec ex_model).
  { intros g a b Hg Hab Hbg. apply in_internal in Hg. cbn in Hg.
    assert (g = 2) by lia. assert (b = 1) by lia. assert (a = 0) by lia. subst. left. reflexivity. }
  assert (Hn : no_input_outputs ex_spec ex_model).
  { intros h i Hh Hi. cbn in Hh, Hi. assert (h = 0) by lia. subst.
    destruct i as [|[|i]]; [reflexivity|reflexivity|lia]. }
  assert (Hd : decode ex_spec (asg_of_model ex_model) = Ok (mkCkt [mkSG 0 1 (false, true, true, false)] [2]))
    by (vm_compute; reflexivity).
  split; [exact Ht|]. split; [exact Hn|]. split; [exact Hd|].
  exact (proj2 C06_encoder_regenerated ex_spec [] true true ex_model _ Ht Hn Hd).
Qed.

(* the class can be empty: one input leaves no pair of predecessors for the first gate, the CNF
   contains the empty clause *)
Example C06_example_no_solution :
  has_empty_clause (encode (mkSpec 1 [[Some false; Some true]] 1 (map op_table basis_FULL) [] false [] [])) = true.
Proof. vm_compute. reflexivity. Qed.

(* all rows don't-cares and nothing forbidden (the second half of D14): the all-false
   assignment satisfies the CNF and decodes *)
Example C06_example_all_dont_care :
  let sp := mkSpec 2 [[None; None; None; None]] 1 (map op_table basis_FULL) [] false [] [] in
  let s := asg_of [VS 2 0 1; VG 0 2] in
  spec_wf sp /\ Sat s (encode sp) /\ decode_typed tt_to_gate_type sp s = Ok (mkTCkt [mkTG 0 1 ALWAYS_FALSE] [2]).
Proof.
  split; [apply spec_wfb_spec; vm_compute; reflexivity|].
  split; [apply satb_spec; vm_compute; reflexivity|vm_compute; reflexivity].
Qed.
