(* C20  Traversals visit exactly the reachable gates in a valid order.
   Statements only; proofs live in Proofs/TopSort*.v, Proofs/Traverse*.v, Proofs/CycleCheck.v.

   Vocabulary (defined in the proof files, repeated here for the reader):
     nxt inverse c l      successors followed by a traversal: operands (inverse = false) / users (true)
     reach nx starts l    l is reachable from a start label along nx (zero or more edges)
     tc nx a b            b is reachable from a along nx by at least one edge
     yielded / enters / exits / unvisited_of log
                          labels of the EvYield / EvEnter / EvExit / EvUnvisited events, in log order
     precedes e1 e2 log   every occurrence of e2 in log has an occurrence of e1 before it
     start_list inverse c starts   the given start set, or inputs (inverse) / outputs when None
     starts_exist         every start label names a gate (Python raises GateDoesntExistError otherwise) *)
(* top_sort, _traverse_circuit, dfs, bfs and check_circuit_has_no_cycles are regenerated from the source by translator T10 and proved equal to the
   model these theorems are about (Properties/C02.v C02_algorithms_regenerated, C02_algorithms_regenerated_2): keep those proofs in this
   property's cone *)
Require Cirbo.Proofs.CircuitAlgosGen Cirbo.Proofs.CircuitAlgosGen2 Cirbo.Proofs.CircuitAlgosGen3 Cirbo.Proofs.CircuitAlgosGenSum.
Require Import Cirbo.Model.Base Cirbo.Model.Gate Cirbo.Model.Circuit Cirbo.Model.Traverse Cirbo.Model.WF.
Require Import Cirbo.Proofs.TopSortWF Cirbo.Proofs.TraverseStep Cirbo.Proofs.TraverseInv
               Cirbo.Proofs.TraverseSpec Cirbo.Proofs.CycleCheck Cirbo.Proofs.TraverseFinal
               Cirbo.Proofs.C20Examples.
Require Import Coq.Sorting.Permutation.

(* ---- topological iteration (Kahn) ---- *)
(* inverse = true: total on a well-formed circuit (fuel size+1 suffices, CircuitIsCyclicalError is
   never raised), every gate exactly once, every gate after all of its operands *)
Theorem C20_top_sort_operands_first : forall c, WF c ->
  exists l, top_sort true c = Ok l /\ Permutation l (dkeys (gates c)) /\
    forall i j a b, nth_error l i = Some a -> nth_error l j = Some b -> In b (ops_of c a) -> j < i.
Proof. exact top_sort_complete. Qed.

(* inverse = false: every gate before all of its operands *)
Theorem C20_top_sort_users_first : forall c, WF c ->
  exists l, top_sort false c = Ok l /\ Permutation l (dkeys (gates c)) /\
    forall i j a b, nth_error l i = Some a -> nth_error l j = Some b -> In b (ops_of c a) -> i < j.
Proof. exact top_sort_complete_rev. Qed.

(* ---- dfs / bfs, both directions, any start set, no raising hook ---- *)
Theorem C20_traverse_total : forall mode inverse c starts tu,
  WF c -> starts_exist inverse c starts ->
  exists log, traverse mode inverse c starts tu no_abort = Ok log.
Proof. exact traverse_total. Qed.

Theorem C20_default_starts_exist : forall inverse c, WF c -> starts_exist inverse c None.
Proof. exact starts_exist_default. Qed.

(* the yielded gates are exactly the reachable ones, each once *)
Theorem C20_traverse_yields_reachable : forall mode inverse c starts tu log,
  WF c -> starts_exist inverse c starts ->
  traverse mode inverse c starts tu no_abort = Ok log ->
  NoDup (yielded log) /\
  forall l, In l (yielded log) <-> reach (nxt inverse c) (start_list inverse c starts) l.
Proof. exact traverse_yields_reachable. Qed.

(* enter hooks fire once per yielded gate in yield order and precede the exit hook of the same gate;
   exit hooks fire at most once, never in BFS, and in DFS for exactly the yielded gates *)
Theorem C20_traverse_hooks : forall mode inverse c starts tu log,
  WF c -> starts_exist inverse c starts ->
  traverse mode inverse c starts tu no_abort = Ok log ->
  enters log = yielded log /\
  (forall l, precedes (EvEnter l) (EvExit l) log) /\
  NoDup (exits log) /\
  (mode = BFS -> exits log = []) /\
  (mode = DFS -> forall l, In l (exits log) <-> In l (yielded log)).
Proof. exact traverse_hooks. Qed.

(* DFS exits are in post-order: a visited gate exits after every gate reachable from it *)
Theorem C20_dfs_post_order : forall inverse c starts tu log,
  WF c -> starts_exist inverse c starts ->
  traverse DFS inverse c starts tu no_abort = Ok log ->
  forall a b, In a (yielded log) -> tc (nxt inverse c) a b ->
              In (EvExit a) log /\ In (EvExit b) log /\ precedes (EvExit b) (EvExit a) log.
Proof. exact dfs_post_order. Qed.

(* the unvisited hook receives exactly the unreached gates, each once, after all other hooks, in
   gate-map order or (topsort_unvisited) in the order of top_sort(inverse=True) *)
Theorem C20_traverse_unvisited : forall mode inverse c starts tu log,
  WF c -> starts_exist inverse c starts ->
  traverse mode inverse c starts tu no_abort = Ok log ->
  (exists order,
     (if tu then top_sort true c = Ok order else order = dkeys (gates c)) /\
     unvisited_of log = filter (fun l => negb (memb l (yielded log))) order) /\
  NoDup (unvisited_of log) /\
  (forall l, In l (unvisited_of log) <->
             In l (dkeys (gates c)) /\ ~ reach (nxt inverse c) (start_list inverse c starts) l) /\
  (gates c <> [] -> exists log0 unv,
     log = log0 ++ map EvUnvisited unv ++ [EvEnd] /\ unvisited_of log0 = [] /\ ~ In EvEnd log0).
Proof. exact traverse_unvisited. Qed.

(* reading of [precedes] in terms of positions *)
Theorem C20_precedes_positions : forall (e1 e2 : event) log j,
  precedes e1 e2 log -> nth_error log j = Some e2 -> exists i, i < j /\ nth_error log i = Some e1.
Proof. exact (@precedes_nth event). Qed.

(* ---- the cycle check, on arbitrary netlists (cycles allowed) ---- *)
(* it raises CircuitValidationError exactly when a cycle is reachable from the outputs ... *)
Theorem C20_cycle_check_iff : forall c,
  NoDup (dkeys (gates c)) ->
  (forall l g o, dget (gates c) l = Some g -> In o (gops g) -> has_gate c o = true) ->
  (forall o, In o (outputs c) -> has_gate c o = true) ->
  (check_circuit_has_no_cycles c = Err CircuitValidationError <->
   exists x, reach (ops_of c) (outputs c) x /\ tc (ops_of c) x x).
Proof. exact check_no_cycles_iff. Qed.

(* ... and otherwise returns normally (in particular the fuel of the model is adequate) *)
Theorem C20_cycle_check_total : forall c,
  NoDup (dkeys (gates c)) ->
  (forall l g o, dget (gates c) l = Some g -> In o (gops g) -> has_gate c o = true) ->
  (forall o, In o (outputs c) -> has_gate c o = true) ->
  check_circuit_has_no_cycles c = Ok tt \/ check_circuit_has_no_cycles c = Err CircuitValidationError.
Proof. exact check_no_cycles_total. Qed.

(* soundness needs no hypothesis on the netlist, for any start set *)
Theorem C20_cycle_check_sound : forall c starts,
  check_circuit_has_no_cycles_from c starts = Err CircuitValidationError ->
  exists x, reach (ops_of c) (start_list false c starts) x /\ tc (ops_of c) x x.
Proof. exact check_from_sound. Qed.

(* started from every gate (the replace_subcircuit variant), success yields the acyclicity
   clause of WF, without any hypothesis; and conversely on netlists whose operands exist *)
Theorem C20_cycle_check_all_gates_acyclic : forall c,
  check_circuit_has_no_cycles_from c (Some (dkeys (gates c))) = Ok tt ->
  exists rank : label -> nat,
    forall l g o, dget (gates c) l = Some g -> In o (gops g) -> rank o < rank l.
Proof. exact check_all_gates_acyclic. Qed.

Theorem C20_acyclic_cycle_check_all_gates : forall c,
  NoDup (dkeys (gates c)) ->
  (forall l g o, dget (gates c) l = Some g -> In o (gops g) -> has_gate c o = true) ->
  (exists rank : label -> nat,
     forall l g o, dget (gates c) l = Some g -> In o (gops g) -> rank o < rank l) ->
  check_circuit_has_no_cycles_from c (Some (dkeys (gates c))) = Ok tt.
Proof. exact acyclic_check_all_gates. Qed.

(* ---- non-vacuity (circuits c20_ex, c20_cyc are defined in Proofs/C20Examples.v) ---- *)
(* c20_ex: inputs a b; g = AND(a,b); h = OR(g,g) (repeated operand, output); k = NOT(a) (dead) *)
Example C20_example_wf : WF c20_ex.
Proof. exact c20_ex_wf. Qed.

Example C20_example_runs :
  top_sort true c20_ex = Ok ["b"; "a"; "k"; "g"; "h"] /\
  top_sort false c20_ex = Ok ["k"; "h"; "g"; "b"; "a"] /\
  traverse DFS false c20_ex None true no_abort =
    Ok [EvEnter "h"; EvDiscover "g" UNVISITED; EvDiscover "g" UNVISITED; EvYield "h";
        EvEnter "g"; EvDiscover "a" UNVISITED; EvDiscover "b" UNVISITED; EvYield "g";
        EvEnter "b"; EvYield "b"; EvExit "b"; EvEnter "a"; EvYield "a"; EvExit "a";
        EvExit "g"; EvExit "h"; EvUnvisited "k"; EvEnd] /\
  traverse BFS true c20_ex None false no_abort =
    Ok [EvEnter "a"; EvDiscover "g" UNVISITED; EvDiscover "k" UNVISITED; EvYield "a";
        EvEnter "b"; EvDiscover "g" UNVISITED; EvYield "b";
        EvEnter "g"; EvDiscover "h" UNVISITED; EvDiscover "h" UNVISITED; EvYield "g";
        EvEnter "k"; EvYield "k"; EvEnter "h"; EvYield "h"; EvEnd] /\
  traverse DFS true c20_ex (Some ["b"]) false no_abort =
    Ok [EvEnter "b"; EvDiscover "g" UNVISITED; EvYield "b";
        EvEnter "g"; EvDiscover "h" UNVISITED; EvDiscover "h" UNVISITED; EvYield "g";
        EvEnter "h"; EvYield "h"; EvExit "h"; EvExit "g"; EvExit "b";
        EvUnvisited "a"; EvUnvisited "k"; EvEnd] /\
  starts_exist true c20_ex (Some ["b"]) /\
  check_circuit_has_no_cycles c20_ex = Ok tt.
Proof.
  repeat split; try (vm_compute; reflexivity).
  intros s [<-|[]]; reflexivity.
Qed.

(* c20_cyc: x = AND(a,y), y = NOT(z), z = NOT(x) (a cycle through the output x); w = NOT(w) unreachable *)
Example C20_example_cycle :
  NoDup (dkeys (gates c20_cyc)) /\
  (forall l g o, dget (gates c20_cyc) l = Some g -> In o (gops g) -> has_gate c20_cyc o = true) /\
  (forall o, In o (outputs c20_cyc) -> has_gate c20_cyc o = true) /\
  check_circuit_has_no_cycles c20_cyc = Err CircuitValidationError /\
  check_circuit_has_no_cycles_from c20_cyc (Some ["a"]) = Ok tt /\
  check_circuit_has_no_cycles_from c20_cyc (Some ["w"]) = Err CircuitValidationError /\
  (reach (ops_of c20_cyc) (outputs c20_cyc) "x" /\ tc (ops_of c20_cyc) "x" "x").
Proof. exact c20_cyc_facts. Qed.
