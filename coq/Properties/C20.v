(* C20  Traversals visit exactly the reachable gates in a valid order.
   (theorems are added as their proofs are completed) *)
Require Import Cirbo.Model.Base Cirbo.Model.Gate Cirbo.Model.Circuit Cirbo.Model.Traverse Cirbo.Model.WF.
