(* C19  Local rewrites keep or specialise the function exactly as documented.
   Statements only; proofs live in Proofs/SemRenameGate.v, SemReplaceInputs.v, SemRemove.v,
   SemReplaceSub*.v (semantics), Proofs/WF*.v (well-formedness, C02), Proofs/EvalRenameGate.v,
   EntryEq.v, EntryEqInputs.v (the entry points evaluate / get_truth_table).

   ren old new l := if l = old then new else l   (Proofs/SemRenameGate.v)
   Eval c a l v  is the relational semantics of Model/Sem.v (tied to the evaluators by C01). *)
(* the simple Circuit methods these theorems rest on are regenerated from the source (translator T9)
   and proved equal to the model: keep those equality lemmas in this property's proof cone *)
Require Cirbo.Proofs.CircuitCoreGen Cirbo.Proofs.CircuitCoreGen2.
Require Import Cirbo.Model.Base Cirbo.Model.Gate Cirbo.Model.Den Cirbo.Model.Circuit Cirbo.Model.Connect
        Cirbo.Model.Eval Cirbo.Model.Sem Cirbo.Model.History Cirbo.Model.WF.
Require Import Cirbo.Proofs.WFEmplace Cirbo.Proofs.WFStep Cirbo.Proofs.SemExt Cirbo.Proofs.SemRenameGate
        Cirbo.Proofs.SemReplaceInputs Cirbo.Proofs.SemRemove Cirbo.Proofs.SemReplaceSub Cirbo.Proofs.SemEvaluate2 Cirbo.Proofs.SemCex
        Cirbo.Proofs.C19Final.
Require Import Cirbo.Proofs.TruthTable Cirbo.Proofs.EntryEq Cirbo.Proofs.EntryEqInputs Cirbo.Proofs.EvalRenameGate
        Cirbo.Proofs.SemReplaceSubEntry.

(* ================= rename_gate ================= *)
(* errors exactly when the old label is absent / the new one present *)
Theorem C19_rename_outcome : forall c old new, WF c ->
  (has_gate c old = false -> rename_gate c old new = Err CircuitGateIsAbsentError) /\
  (has_gate c old = true -> has_gate c new = true ->
   rename_gate c old new = Err CircuitGateAlreadyExistsError) /\
  (has_gate c old = true -> has_gate c new = false -> exists c', rename_gate c old new = Ok c').
Proof. exact rename_gate_outcome. Qed.

Theorem C19_rename_ok_iff : forall c old new, WF c ->
  ((exists c', rename_gate c old new = Ok c') <-> has_gate c old = true /\ has_gate c new = false).
Proof. exact rename_gate_ok_iff. Qed.

(* every reference points at the renamed gate: the gate map (keys and operands), inputs, outputs,
   blocks and the users index are the images under the renaming; the renamed gate moves to the
   end of the gate map *)
Theorem C19_rename_references : forall c old new c', WF c -> rename_gate c old new = Ok c' ->
  WF c' /\
  (forall x g, dget (gates c) x = Some g ->
     dget (gates c') (ren old new x) = Some (mkGate (gtyp g) (map (ren old new) (gops g)))) /\
  (forall y g', dget (gates c') y = Some g' ->
     exists x g, y = ren old new x /\ dget (gates c) x = Some g) /\
  has_gate c' old = false /\
  dkeys (gates c') = remove1 old (dkeys (gates c)) ++ [new] /\
  inputs c' = map (ren old new) (inputs c) /\
  outputs c' = map (ren old new) (outputs c) /\
  blocks c' = map (fun kb => (fst kb, mkBlock (map (ren old new) (binputs (snd kb)))
                                              (map (ren old new) (bgates (snd kb)))
                                              (map (ren old new) (boutputs (snd kb))))) (blocks c) /\
  (forall x u, has_gate c x = true -> has_gate c u = true ->
     count (ren old new u) (users_of c' (ren old new x)) = count u (users_of c x)).
Proof. exact rename_gate_state. Qed.

(* the semantics is transported along the renaming, for every pair of assignments that agree
   modulo the renaming on the inputs ... *)
Theorem C19_rename_semantics : forall c c' old new, WF c -> rename_gate c old new = Ok c' ->
  forall a a', (forall l, In l (inputs c) -> aval a' (ren old new l) = aval a l) ->
  forall l v, has_gate c l = true -> (Eval c' a' (ren old new l) v <-> Eval c a l v).
Proof. exact rename_gate_sem. Qed.

(* ... in particular for the renamed assignment *)
Theorem C19_rename_semantics_renamed_assignment : forall c old new c' a,
  WF c -> rename_gate c old new = Ok c' -> dmem a new = false ->
  forall l v, has_gate c l = true ->
    (Eval c' (rename_assignment old new a) (ren old new l) v <-> Eval c a l v).
Proof. exact rename_gate_sem_concrete. Qed.

(* hence no truth table changes: the output vector is the same function of the (renamed) inputs *)
Theorem C19_rename_truth_table : forall c c' old new, WF c -> rename_gate c old new = Ok c' ->
  forall a a', (forall l, In l (inputs c) -> aval a' (ren old new l) = aval a l) ->
  forall vs, Forall2 (Eval c' a') (outputs c') vs <-> Forall2 (Eval c a) (outputs c) vs.
Proof. exact rename_gate_outputs_sem. Qed.

(* the same at the entry points, as equalities of results, for EVERY well-formed circuit (no
   arity hypothesis) and every value vector (three-valued, any length): evaluate takes its
   values positionally, so it does not see the renaming; the two runs of the stack evaluator
   proceed in lock step (Proofs/EvalRenameGate.v), so values and errors coincide - e.g. a gate
   whose operator rejects its operand count raises the same error at the same point *)
Theorem C19_rename_evaluate : forall c c' old new, WF c -> rename_gate c old new = Ok c' ->
  forall vals, evaluate c' vals = evaluate c vals.
Proof. exact rename_gate_evaluate_all. Qed.

Theorem C19_rename_get_truth_table : forall c c' old new, WF c -> rename_gate c old new = Ok c' ->
  get_truth_table c' = get_truth_table c.
Proof. exact rename_gate_truth_table_all. Qed.

(* with accepted arities both calls return (completeness of the evaluators, C01) *)
Theorem C19_rename_get_truth_table_returns : forall c old new c',
  WF c -> arity_ok c -> rename_gate c old new = Ok c' ->
  exists tt, get_truth_table c = Ok tt /\ get_truth_table c' = Ok tt.
Proof. exact rename_gate_truth_table_ok. Qed.

(* ================= replace_inputs ================= *)
(* the state: constants without operands replace the chosen INPUT gates, the remaining inputs keep
   their original order, nothing else changes; the chosen labels are distinct INPUT gates *)
Theorem C19_replace_inputs_state : forall c ts fs c',
  NoDup (inputs c) -> replace_inputs c ts fs = Ok c' ->
  (forall x, dget (gates c') x =
             if memb x fs then Some (mkGate ALWAYS_FALSE [])
             else if memb x ts then Some (mkGate ALWAYS_TRUE []) else dget (gates c) x) /\
  inputs c' = filter (fun i => negb (memb i (ts ++ fs))) (inputs c) /\
  outputs c' = outputs c /\ users c' = users c /\ blocks c' = blocks c /\
  (forall l, In l (ts ++ fs) -> exists g, dget (gates c) l = Some g /\ gtyp g = INPUT) /\
  NoDup (ts ++ fs).
Proof. exact replace_inputs_spec. Qed.

Theorem C19_replace_inputs_well_formed : forall c ts fs c',
  Inv c -> replace_inputs c ts fs = Ok c' -> Inv c'.
Proof. exact replace_inputs_inv'. Qed.

(* exactly the cofactor: for every assignment a' of the remaining inputs and every extension a
   of it by ts -> True, fs -> False, every gate has the same value *)
Theorem C19_replace_inputs_cofactor : forall c ts fs c' a a',
  WF c -> replace_inputs c ts fs = Ok c' ->
  (forall l, In l ts -> aval a l = T) ->
  (forall l, In l fs -> aval a l = F) ->
  (forall l, In l (inputs c') -> aval a l = aval a' l) ->
  forall l v, Eval c' a' l v <-> Eval c a l v.
Proof. exact replace_inputs_sem. Qed.

Theorem C19_replace_inputs_cofactor_assignment : forall c ts fs c' a',
  WF c -> replace_inputs c ts fs = Ok c' ->
  forall l v, Eval c' a' l v <-> Eval c (cofactor_assignment a' ts fs) l v.
Proof. exact replace_inputs_cofactor. Qed.

(* the same at the entry points.  cofactor_list t f ins ts fs vals is the positional vector for
   the original input list: the inputs in fs get f, those in ts get t, the remaining ones consume
   vals in order.  evaluate on the result = evaluate on the original circuit with the constants
   filled in, as results, for every (three-valued) vector of any length *)
Theorem C19_replace_inputs_evaluate : forall c ts fs c' vals',
  Inv c -> arity_ok c -> replace_inputs c ts fs = Ok c' ->
  evaluate c' vals' = evaluate c (cofactor_list T F (inputs c) ts fs vals').
Proof. exact replace_inputs_evaluate. Qed.

(* and the truth table of the result is the cofactor of the original truth table: both calls
   return, and row j, column x of the new table is row j, column (x with the constants filled in)
   of the old one (val_be x = the index of the Boolean vector x in the table order, C01) *)
Theorem C19_replace_inputs_truth_table : forall c ts fs c',
  Inv c -> arity_ok c -> replace_inputs c ts fs = Ok c' ->
  exists tt tt', get_truth_table c = Ok tt /\ get_truth_table c' = Ok tt' /\
    length tt = length (outputs c) /\ length tt' = length (outputs c) /\
    forall j x, j < length (outputs c) -> length x = length (inputs c') ->
      exists row row' v, nth_error tt j = Some row /\ nth_error tt' j = Some row' /\
        nth_error row' (val_be x) = Some v /\
        nth_error row (val_be (cofactor_list true false (inputs c) ts fs x)) = Some v.
Proof. exact replace_inputs_truth_table. Qed.

Theorem C19_replace_inputs_arities_accepted : forall c ts fs c',
  WF c -> arity_ok c -> replace_inputs c ts fs = Ok c' -> arity_ok c'.
Proof. exact replace_inputs_arity_ok. Qed.

Example C19_replace_inputs_entry_example :
  arity_ok C19_ex /\
  cofactor_list T F (inputs C19_ex) ["x"] ["z"] [F] = [T; F; F] /\
  exists c', replace_inputs C19_ex ["x"] ["z"] = Ok c' /\
    evaluate c' [F] = Ok [T; F] /\ evaluate C19_ex [T; F; F] = Ok [T; F] /\
    get_truth_table c' = Ok [[T; F]; [F; T]] /\
    get_truth_table C19_ex = Ok [[T; F; T; F; T; F; F; F]; [F; F; F; F; F; F; T; T]].
Proof. exact C19_ex_entry. Qed.

(* ================= remove_gate ================= *)
(* succeeds only for an existing gate nobody uses *)
Theorem C19_remove_gate_outcome : forall c l, WF c ->
  (has_gate c l = false -> remove_gate c l = Err CircuitValidationError) /\
  (has_gate c l = true -> users_of c l <> [] -> remove_gate c l = Err GateHasUsersError) /\
  (has_gate c l = true -> users_of c l = [] -> exists c', remove_gate c l = Ok c').
Proof. exact remove_gate_outcome. Qed.

(* "nobody uses l" in terms of the gate map *)
Theorem C19_no_users_iff : forall c l, WF c ->
  (users_of c l = [] <-> forall u g, dget (gates c) u = Some g -> ~ In l (gops g)).
Proof. exact no_users_iff. Qed.

(* it is removed from the gate map, the inputs and the outputs; blocks mentioning it are dropped *)
Theorem C19_remove_gate_state : forall c l c', WF c -> remove_gate c l = Ok c' ->
  has_gate c l = true /\ users_of c l = [] /\
  (forall x, dget (gates c') x = if leqb x l then None else dget (gates c) x) /\
  inputs c' = remove1 l (inputs c) /\
  outputs c' = remove_all l (outputs c) /\
  blocks c' = filter (fun kb => negb (memb l (bgates (snd kb)) || memb l (binputs (snd kb))
                                      || memb l (boutputs (snd kb)))) (blocks c).
Proof. exact remove_gate_spec. Qed.

Theorem C19_remove_gate_well_formed : forall c l c', WF c -> remove_gate c l = Ok c' -> WF c'.
Proof. exact WFRemove.remove_gate_wf. Qed.

(* every other gate keeps its value *)
Theorem C19_remove_gate_semantics : forall c l c' a, WF c -> remove_gate c l = Ok c' ->
  forall x v, x <> l -> (Eval c' a x v <-> Eval c a x v).
Proof. exact remove_gate_sem. Qed.

(* ================= replace_subcircuit ================= *)
(* ren_all (imap ++ omap) is the composite of the renamings performed by the operation
   (Proofs/SemReplaceSub.v); on success it sends every mapped gate to its mapped label and fixes
   every other label *)
Theorem C19_replace_subcircuit_renaming : forall c sub imap omap fresh c',
  Inv c -> replace_subcircuit c sub imap omap fresh = Ok c' ->
  (forall k v, In (k, v) (imap ++ omap) -> ren_all (imap ++ omap) k = v) /\
  (forall l, ~ In l (dkeys imap ++ dkeys omap) -> ren_all (imap ++ omap) l = l).
Proof. exact replace_subcircuit_rho'. Qed.

Theorem C19_replace_subcircuit_well_formed : forall c sub imap omap fresh c',
  Inv c -> Inv sub -> replace_subcircuit c sub imap omap fresh = Ok c' -> Inv c'.
Proof. exact replace_subcircuit_inv'. Qed.

(* Functional equivalence under the correspondence, for the host assignment a: whenever b gives
   the mapped inputs of the replacement the values of the corresponding host gates, the
   replacement has at every mapped output the value of the corresponding host gate.  (This is
   implied by "for every assignment of the cut the two compute the same outputs".)
   Then every surviving gate keeps its value, modulo the renaming of the mapped gates.  A gate x
   of c survives iff its renamed label is still a gate and is not an internal gate of the
   replacement (labels of internal gates of the replacement are new: add_gate rejects others). *)
Theorem C19_replace_subcircuit_semantics : forall c sub imap omap fresh c' a a',
  Inv c -> Inv sub -> arity_ok c -> replace_subcircuit c sub imap omap fresh = Ok c' ->
  (forall l, In l (inputs c) -> aval a' (ren_all (imap ++ omap) l) = aval a l) ->
  (forall b, (forall k, In k (dkeys imap) -> Eval c a k (aval b (ren_all (imap ++ omap) k))) ->
             forall k v, In k (dkeys omap) -> Eval c a k v -> Eval sub b (ren_all (imap ++ omap) k) v) ->
  forall x v, has_gate c x = true -> has_gate c' (ren_all (imap ++ omap) x) = true ->
    has_gate sub (ren_all (imap ++ omap) x) = false \/
    In (ren_all (imap ++ omap) x) (dvals imap ++ dvals omap) ->
    (Eval c' a' (ren_all (imap ++ omap) x) v <-> Eval c a x v).
Proof. exact replace_subcircuit_sem'. Qed.

(* in particular the truth table of the whole circuit is unchanged *)
Theorem C19_replace_subcircuit_truth_table : forall c sub imap omap fresh c' a a',
  Inv c -> Inv sub -> arity_ok c -> replace_subcircuit c sub imap omap fresh = Ok c' ->
  (forall l, In l (inputs c) -> aval a' (ren_all (imap ++ omap) l) = aval a l) ->
  (forall b, (forall k, In k (dkeys imap) -> Eval c a k (aval b (ren_all (imap ++ omap) k))) ->
             forall k v, In k (dkeys omap) -> Eval c a k v -> Eval sub b (ren_all (imap ++ omap) k) v) ->
  outputs c' = map (ren_all (imap ++ omap)) (outputs c) /\
  forall vs, Forall2 (Eval c' a') (outputs c') vs <-> Forall2 (Eval c a) (outputs c) vs.
Proof. exact replace_subcircuit_outputs_sem'. Qed.

(* the same at the entry points.  The result has accepted arities when host and replacement have;
   if moreover no primary input is removed (inputs c' = the renamed inputs of c: an input that is
   itself a replaced output would disappear from the input list), a replacement that is
   functionally equivalent under the correspondence for every host assignment leaves evaluate
   (every value vector) and get_truth_table unchanged, as results *)
Theorem C19_replace_subcircuit_arities_accepted : forall c sub imap omap fresh c',
  WF c -> WF sub -> replace_subcircuit c sub imap omap fresh = Ok c' ->
  arity_ok c -> arity_ok sub -> arity_ok c'.
Proof. exact replace_subcircuit_arity_ok. Qed.

Theorem C19_replace_subcircuit_outputs : forall c sub imap omap fresh c',
  WF c -> WF sub -> replace_subcircuit c sub imap omap fresh = Ok c' ->
  outputs c' = map (ren_all (imap ++ omap)) (outputs c).
Proof. exact replace_subcircuit_outputs. Qed.

Theorem C19_replace_subcircuit_evaluate : forall c sub imap omap fresh c',
  Inv c -> Inv sub -> arity_ok c -> arity_ok sub -> replace_subcircuit c sub imap omap fresh = Ok c' ->
  inputs c' = map (ren_all (imap ++ omap)) (inputs c) ->
  (forall a b, (forall k, In k (dkeys imap) -> Eval c a k (aval b (ren_all (imap ++ omap) k))) ->
               forall k v, In k (dkeys omap) -> Eval c a k v -> Eval sub b (ren_all (imap ++ omap) k) v) ->
  (forall vals, evaluate c' vals = evaluate c vals) /\ get_truth_table c' = get_truth_table c.
Proof. exact replace_subcircuit_entry_eq. Qed.

Example C19_replace_subcircuit_entry_example :
  arity_ok C19_rs_sub /\
  exists c', replace_subcircuit C19_rs_host C19_rs_sub C19_rs_imap C19_rs_omap "f" = Ok c' /\
    inputs c' = map (ren_all (C19_rs_imap ++ C19_rs_omap)) (inputs C19_rs_host) /\
    get_truth_table c' = Ok [[T; T; T; T]] /\ get_truth_table C19_rs_host = Ok [[T; T; T; T]].
Proof. exact C19_rs_entry_ok. Qed.

(* or it raises one of the documented errors (the model's fuel is adequate: never OutOfFuel) *)
Theorem C19_replace_subcircuit_errors : forall c sub imap omap fresh e,
  Inv c -> Inv sub -> replace_subcircuit c sub imap omap fresh = Err e ->
  In e [ReplaceSubcircuitError; CreateBlockError; DeleteBlockError; CircuitValidationError;
        CircuitGateAlreadyExistsError; CircuitGateIsAbsentError; GateDoesntExistError].
Proof. exact replace_subcircuit_errors'. Qed.

(* arity_ok c cannot be dropped: the host has a gate without value (unary AND) in the cut, the
   replaced slice g = NOT y ignores it, the replacement g = OR(NOT y, AND(bad, NOT bad)) computes
   the same Boolean function but reads it; all other hypotheses hold and the output g, which had
   the value False, has no value afterwards (evaluation raises TypeError) *)
Theorem C19_replace_subcircuit_arity_needed :
  Inv cex_rs_host /\ Inv cex_rs_sub /\ ~ arity_ok cex_rs_host /\
  (forall b, (forall k, In k (dkeys cex_rs_imap) ->
                Eval cex_rs_host cex_rs_a k (aval b (ren_all (cex_rs_imap ++ cex_rs_omap) k))) ->
             forall k v, In k (dkeys cex_rs_omap) -> Eval cex_rs_host cex_rs_a k v ->
                         Eval cex_rs_sub b (ren_all (cex_rs_imap ++ cex_rs_omap) k) v) /\
  exists c', replace_subcircuit cex_rs_host cex_rs_sub cex_rs_imap cex_rs_omap "f" = Ok c' /\
    Eval cex_rs_host cex_rs_a "g" F /\ forall v, ~ Eval c' cex_rs_a "g" v.
Proof. exact replace_subcircuit_bad_arity_loses_value. Qed.

(* non-vacuity: host  out = OR(NOT(AND(x,y)), x), the slice {AND, NOT} between the cut {x, y} and
   the gate h is replaced by h = NAND(x,y); all hypotheses of the semantic theorems hold *)
Example C19_replace_subcircuit_example :
  Inv C19_rs_host /\ Inv C19_rs_sub /\ arity_ok C19_rs_host /\
  (exists c', replace_subcircuit C19_rs_host C19_rs_sub C19_rs_imap C19_rs_omap "f" = Ok c' /\ size c' = 4) /\
  forall a b,
    (forall k, In k (dkeys C19_rs_imap) ->
       Eval C19_rs_host a k (aval b (ren_all (C19_rs_imap ++ C19_rs_omap) k))) ->
    forall k v, In k (dkeys C19_rs_omap) -> Eval C19_rs_host a k v ->
      Eval C19_rs_sub b (ren_all (C19_rs_imap ++ C19_rs_omap) k) v.
Proof. exact C19_rs_ok. Qed.

(* ================= non-vacuity ================= *)
Example C19_example :
  Inv C19_ex /\
  (exists c', rename_gate C19_ex "g1" "h" = Ok c') /\
  rename_gate C19_ex "q" "h" = Err CircuitGateIsAbsentError /\
  rename_gate C19_ex "g1" "g2" = Err CircuitGateAlreadyExistsError /\
  (exists c', replace_inputs C19_ex ["x"] ["z"] = Ok c' /\ inputs c' = ["y"]) /\
  (exists c', remove_gate C19_ex "d" = Ok c') /\
  remove_gate C19_ex "g1" = Err GateHasUsersError /\
  remove_gate C19_ex "q" = Err CircuitValidationError.
Proof. exact C19_ex_ok. Qed.

(* ---- replace_subcircuit as the source says it now (translator T10) agrees with the model these theorems are about
        (proved in Proofs/CircuitAlgosGen7.v, also stated under C02); re-stated here so that an edit of the method
        breaks a proof obligation of THIS property. ---- *)
Require Cirbo.Proofs.CircuitAlgosGen Cirbo.Proofs.CircuitAlgosGen7 Cirbo.Proofs.CircuitAlgosGenSum.
Theorem C19_replace_subcircuit_regenerated : forall c sub imap omap f rest,
  WF c -> CircuitAlgosGenSum.keys_ok sub -> NoDup (dkeys imap) -> NoDup (dkeys omap) ->
  CircuitAlgosGen7.rs_agree
    (Cirbo.Generated.CircuitAlgos.gen_replace_subcircuit CircuitAlgosGen.size_fuel CircuitAlgosGen.size_fuel
       CircuitAlgosGen7.all_gates_fuel CircuitAlgosGen.size_fuel c sub imap omap (f :: rest))
    (replace_subcircuit c sub imap omap f).
Proof. exact CircuitAlgosGenSum.replace_subcircuit_regenerated. Qed.
