(* C17  Shipped circuit databases are correct and lookups return the requested function.
   Statements only; proofs live in Proofs/.  The data half (every entry of both shipped files)
   is settled by running the checker `check_entry`, whose soundness is stated here, over all
   records (harness/dbsweep.py, coq/Extract); the lookup half is proved for every database whose
   stored circuits compute their keys. *)
Require Import Cirbo.Model.Base Cirbo.Model.Gate Cirbo.Model.Circuit Cirbo.Model.Eval Cirbo.Model.Sem.
Require Import Cirbo.Model.BitIO Cirbo.Model.DictIO Cirbo.Model.Codec Cirbo.Model.CodecCheck Cirbo.Model.Db Cirbo.Model.DbCheck.
Require Import Cirbo.Proofs.EvalFacts Cirbo.Proofs.IsoFacts Cirbo.Proofs.CodecFacts Cirbo.Proofs.CodecCheckFacts.
Require Import Cirbo.Proofs.DbCheckFacts Cirbo.Proofs.DbTruthTableFacts Cirbo.Proofs.NormFacts Cirbo.Proofs.DbFacts.
Require Import Cirbo.Generated.CodecAlgGen Cirbo.Generated.NormAlgGen Cirbo.Proofs.NormAlgGen Cirbo.Proofs.NormAlgGenSum.
Require Import Cirbo.Proofs.ModelLookupFacts Cirbo.Proofs.CompletionFacts Cirbo.Proofs.LabelFacts Cirbo.Proofs.DecodeFacts Cirbo.Proofs.SweptDb Cirbo.Proofs.LookupTotal.
Require Import Cirbo.Generated.DbAlgGen Cirbo.Proofs.DbAlgGenDefs Cirbo.Proofs.DbAlgGenSum.

(* ---- data half ---- *)
(* an accepted entry decodes to a well-formed circuit over the basis whose truth table,
   printed as a label, is exactly the key *)
Theorem C17_check_entry_sound : forall basis key bs,
  check_entry basis key bs = true ->
  exists c rows t,
    decode_circuit bs = Ok c /\ well_formed c /\ in_basis basis c /\
    get_truth_table c = Ok rows /\ table_of_states rows = Some t /\ truth_table_to_label t = key.
Proof. exact check_entry_sound. Qed.

(* a range of records on which the sweep reports no index consists of accepted entries *)
Theorem C17_sweep_slice_sound : forall basis recs lo len,
  check_slice basis (slice_records recs lo len) lo = [] ->
  Forall (fun kv : label * bytes => entry_ok basis (fst kv) (snd kv)) (slice_records recs lo len).
Proof. exact sweep_slice_sound. Qed.

(* the dictionary the implementation builds from a file has no entry outside the swept records *)
Theorem C17_records_cover_dictionary : forall s recs d,
  db_records s = Ok recs -> read_binary_dict s = Ok d ->
  forall k v, dget d k = Some v -> In (k, v) recs.
Proof. exact records_cover_dictionary. Qed.

(* the table compared with the key is the relational semantics of the circuit:
   row j, column i = value of output j under the i-th input vector *)
Theorem C17_truth_table_is_semantics : forall c rows t,
  inputs_are_input_gates c -> NoDup (inputs c) ->
  get_truth_table c = Ok rows -> table_of_states rows = Some t -> computes c t.
Proof. exact truth_table_is_semantics. Qed.

(* all records of a database file accepted  =>  the dictionary the implementation reads from that
   file satisfies the hypothesis `db_ok` of the lookup theorems below *)
Theorem C17_swept_file_is_db_ok : forall basis s recs d,
  db_records s = Ok recs -> read_binary_dict s = Ok d ->
  Forall (fun kv : label * bytes => entry_ok basis (fst kv) (snd kv)) recs -> db_ok d.
Proof. exact swept_file_ok. Qed.

(* ---- lookups ---- *)
(* db_ok d: for every table t without empty rows, an entry stored under the label of t decodes to a
   circuit (labels gate_<i>, outputs present) that computes t *)
(* the fully defined lookup returns a circuit computing exactly the requested table, output by
   output in the requested order (through output negation, sorting and duplicate removal) *)
Theorem C17_lookup_returns_requested_function : forall d t c,
  db_ok d -> get_by_raw_truth_table d t = DbOk (Some c) -> computes c t.
Proof. exact lookup_returns_requested_function. Qed.

(* ... or nothing, and then the normalised table is not a key *)
Theorem C17_lookup_none_only_if_absent : forall d t,
  get_by_raw_truth_table d t = DbOk None ->
  exists ni, normalize t = Ok ni /\ dget d (truth_table_to_label (norm_table ni)) = None.
Proof. exact lookup_none_only_if_absent. Qed.

(* the two together with termination without exception: for a non-empty table without empty rows
   the lookup returns a circuit computing it, or nothing and then the normalised table is no key *)
Theorem C17_lookup_complete_statement : forall d t,
  db_ok d -> t <> [] -> rows_nonempty t ->
  (exists c, get_by_raw_truth_table d t = DbOk (Some c) /\ computes c t) \/
  (get_by_raw_truth_table d t = DbOk None /\
   exists ni, normalize t = Ok ni /\ dget d (truth_table_to_label (norm_table ni)) = None).
Proof. exact lookup_complete_statement. Qed.

Theorem C17_model_lookup_never_raises : forall d tm excl,
  db_ok d -> tm <> [] -> Forall (fun row : list (option bool) => row <> []) tm ->
  exists r, get_by_raw_truth_table_model d tm excl = DbOk r.
Proof. exact model_lookup_total. Qed.

(* the lookup with don't-cares returns a circuit that agrees with every defined entry and is no
   larger (gates_number with the same exclusion list) than what any enumerated substitution of
   the don't-cares yields *)
Theorem C17_model_lookup_agrees_and_is_minimal : forall d tm excl c,
  db_ok d -> get_by_raw_truth_table_model d tm excl = DbOk (Some c) ->
  (exists t, agrees tm t /\ computes c t) /\
  forall s c2, In s (all_bool_vectors (length (undefined_positions tm))) ->
    lookup_at d tm s = DbOk (Some c2) -> (gates_number c excl <= gates_number c2 excl)%nat.
Proof. exact model_lookup_correct. Qed.

(* ... and "any completion" really is any table that agrees with the defined entries *)
Theorem C17_model_lookup_minimal_among_all_completions : forall d tm excl c,
  get_by_raw_truth_table_model d tm excl = DbOk (Some c) ->
  forall t c2, agrees tm t -> get_by_raw_truth_table d t = DbOk (Some c2) ->
    (gates_number c excl <= gates_number c2 excl)%nat.
Proof. exact model_lookup_minimal_among_completions. Qed.

(* ---- the regenerated algorithms (translator T16) ----
   Generated/NormAlgGen.v is produced on every check from the STATEMENTS of normalization.py (class
   NormalizationInfo, _negate_gate) and of _truth_table_to_label in db.py, Generated/CodecAlgGen.v from the codec
   (see C16_codec_regenerated); every generated function equals the hand model the lookup theorems above are
   about.  gen_of_norm ni (Proofs/NormAlgGen.v) is the Python object (Optional lists of Python ints) that
   NormalizationInfo(t) builds when the hand model builds ni; to_db maps a generated result into the model's
   dbres (CircuitIsNotCompatibleWithNormalizationParameters is TruthTableBadShapeError in the generated code,
   NotCompatibleWithNormalization in the model).  The methods of the class CircuitsDatabase itself:
   C17_database_regenerated below. *)
Theorem C17_lookup_regenerated :
  (* normalization.py: the three steps of NormalizationInfo(t) write one attribute each ... *)
  (forall o t, gen_NormalizationInfo__normalize_outputs o t
     = do r <- normalize_outputs t; Ok (snd r, set_NormalizationInfo_negations o (Some (fst r)))) /\
  (forall o t, gen_NormalizationInfo__sort_outputs o t
     = Ok (snd (sort_outputs t),
           set_NormalizationInfo_permutation o (Some (map Z.of_nat (fst (sort_outputs t)))))) /\
  (forall o t, gen_NormalizationInfo__delete_duplicate_outputs o t
     = do r <- delete_duplicate_outputs t;
       Ok (fst r, set_NormalizationInfo_mapping o (Some (map Z.of_nat (snd r))))) /\
  (* ... and the constructor (with _normalize) builds, for every table, the object of the hand model's result *)
  (forall t, gen_NormalizationInfo___init__ t = do ni <- normalize t; Ok (gen_of_norm ni)) /\
  (* denormalize and its helpers, on every object the constructor builds and every circuit *)
  (forall c g, gen__negate_gate c g = do r <- negate_gate c g; Ok (snd r, fst r)) /\
  (forall ni c, gen_NormalizationInfo__undo_outputs_deletion (gen_of_norm ni) c = undo_outputs_deletion ni c) /\
  (forall ni c, to_db (gen_NormalizationInfo__unsort_outputs (gen_of_norm ni) c) = unsort_outputs ni c) /\
  (forall ni c, to_db (gen_NormalizationInfo__denormalize_outputs (gen_of_norm ni) c) = denormalize_outputs ni c) /\
  (forall ni c, to_db (gen_NormalizationInfo_denormalize (gen_of_norm ni) c) = denormalize ni c) /\
  (* db.py: _truth_table_to_label *)
  (forall t, gen__truth_table_to_label t = Ok (truth_table_to_label t)) /\
  (* what get_by_label / open / save / add_circuit / get_by_raw_truth_table_model call in the codec *)
  (forall bs, gen_decode_circuit bs = decode_circuit bs) /\
  (forall s, gen_read_binary_dict s = do d <- read_binary_dict s; Ok (d, [])) /\
  (forall d s, gen_write_binary_dict d s = do b <- write_binary_dict d; Ok (s ++ b)) /\
  (forall c, gen_encode_circuit (length (non_input_labels c)) c = encode_circuit c) /\
  (forall c excl, gen_Circuit_gates_number c excl = Ok (Z.of_nat (gates_number c excl))).
Proof. exact lookup_regenerated_holds. Qed.

(* the regenerated functions do perform the lookup of the non-vacuity example below: NormalizationInfo of the
   NAND table, the label of its normalised table, the decoded entry, denormalize *)
Example C17_example_regenerated_lookup :
  (do o <- gen_NormalizationInfo___init__ [[true; true; true; false]];
   do l <- gen__truth_table_to_label (NormalizationInfo_truth_table o);
   do c <- gen_decode_circuit (map ascii_of_N [2; 86; 144]%N);
   do c' <- gen_NormalizationInfo_denormalize o c;
   Ok (l, outputs c'))
  = Ok ("0001", ["not_gate_2"]).
Proof. vm_compute; reflexivity. Qed.

(* ---- the regenerated class CircuitsDatabase (translator T23) ----
   Generated/DbAlgGen.v is produced on every check from the STATEMENTS of the methods get_by_label,
   get_by_raw_truth_table, add_circuit, get_by_raw_truth_table_model and save of the class CircuitsDatabase in db.py
   (the in-place stores defined_truth_table[j][k] = val under itertools.product, the DontCare tests on three-valued
   cells, the best-so-far bookkeeping included).  The object is the record of its attribute _dict:
   db_obj None = not opened, db_obj (Some d) = opened with the dictionary d of the hand model.  NotOpened
   (CircuitDatabaseNotOpenedError) is TraverseMethodError and CircuitsDatabaseError is BadDefinitionError in the
   generated code (Base.err has no constructors for them); to_db2 (Proofs/DbAlgGenDefs.v) maps a generated result
   into the model's dbres.  Every method equals the hand model for ALL arguments (no side condition on the tables:
   empty, ragged and don't-care-free tables included).  open / close (lzma, pathlib, isinstance dispatch) are not
   regenerated. *)
Theorem C17_database_regenerated :
  (* a database that is not opened: CircuitDatabaseNotOpenedError, where the source raises it *)
  (forall l, gen_CircuitsDatabase_get_by_label (db_obj None) l = Err NotOpened) /\
  (forall t, gen_CircuitsDatabase_get_by_raw_truth_table (db_obj None) t = do _ <- normalize t; Err NotOpened) /\
  (forall fuel c l, gen_CircuitsDatabase_add_circuit fuel (db_obj None) c l = Err NotOpened) /\
  (forall tm excl, gen_CircuitsDatabase_get_by_raw_truth_table_model (db_obj None) tm excl
     = do _ <- normalize (substitute (defined_table tm) (undefined_positions tm)
                                      (repeat false (length (undefined_positions tm))));
       Err NotOpened) /\
  (forall s, gen_CircuitsDatabase_save (db_obj None) s = Err NotOpened) /\
  (* an opened database with dictionary d: the hand model on d, for all arguments *)
  (forall d l, gen_CircuitsDatabase_get_by_label (db_obj (Some d)) l = get_by_label d l) /\
  (forall d t, to_db2 (gen_CircuitsDatabase_get_by_raw_truth_table (db_obj (Some d)) t) = get_by_raw_truth_table d t) /\
  (forall d tm excl, to_db2 (gen_CircuitsDatabase_get_by_raw_truth_table_model (db_obj (Some d)) tm excl)
     = get_by_raw_truth_table_model d tm excl) /\
  (* add_circuit with an explicit label (fuel of the encoder's `while pending` loop: the number of non-input gates) *)
  (forall d c l, to_db2 (gen_CircuitsDatabase_add_circuit (length (non_input_labels c)) (db_obj (Some d)) c (Some l))
     = dbdo d' <- add_circuit d c l; DbOk (db_obj (Some d'))) /\
  (* ... and with label=None: the label of the circuit's truth table, which must be its own normal form *)
  (forall fuel d c, gen_CircuitsDatabase_add_circuit fuel (db_obj (Some d)) c None
     = do t <- py_circuit_truth_table c;
       do ni <- normalize t;
       if negb (all_eqb (all_eqb Bool.eqb) (norm_table ni) t) then Err BadDefinitionError
       else gen_CircuitsDatabase_add_circuit fuel (db_obj (Some d)) c (Some (truth_table_to_label (norm_table ni)))) /\
  (forall d s, gen_CircuitsDatabase_save (db_obj (Some d)) s = do b <- save d; Ok (s ++ b)).
Proof. exact database_regenerated_holds. Qed.

(* the regenerated class does perform the don't-care lookup of the non-vacuity example below, adds a circuit under the
   label of its truth table and refuses to add it twice *)
Example C17_example_regenerated_database :
  (do oc <- gen_CircuitsDatabase_get_by_raw_truth_table_model
              (db_obj (Some [("0001", map ascii_of_N [2; 86; 144]%N)])) [[Some false; None; None; Some true]] None;
   Ok (option_map outputs oc)) = Ok (Some ["gate_2"]) /\
  (let c := mkCircuit ["a"] ["a"] [("a", mkGate INPUT [])] [] [] in
   do o <- gen_CircuitsDatabase_add_circuit 0 (db_obj (Some [])) c None;
   Ok (option_map (map fst) (CircuitsDatabase__dict o), gen_CircuitsDatabase_add_circuit 0 o c None))
  = Ok (Some ["01"], Err BadDefinitionError).
Proof. split; vm_compute; reflexivity. Qed.

(* ---- non-vacuity ---- *)
(* the AIG entry stored under "0001" (AND of the two inputs) is accepted, and the one-entry
   database made of it answers the lookup of the negated function NAND by adding a NOT gate *)
Definition C17_entry_0001 : bytes := map ascii_of_N [2; 86; 144]%N.

Example C17_example_entry : check_entry AIG_BASIS "0001" C17_entry_0001 = true.
Proof. vm_compute; reflexivity. Qed.

Example C17_example_lookup :
  get_by_raw_truth_table [("0001", C17_entry_0001)] [[true; true; true; false]]
  = DbOk (Some (mkCircuit ["gate_0"; "gate_1"] ["not_gate_2"]
      [("gate_0", mkGate INPUT []); ("gate_1", mkGate INPUT []); ("gate_2", mkGate AND ["gate_0"; "gate_1"]);
       ("not_gate_2", mkGate NOT ["gate_2"])]
      [("gate_0", ["gate_2"]); ("gate_1", ["gate_2"]); ("gate_2", ["not_gate_2"])] [])).
Proof. vm_compute; reflexivity. Qed.

Example C17_example_model_lookup :
  exists c, get_by_raw_truth_table_model [("0001", C17_entry_0001)] [[Some false; None; None; Some true]] None
            = DbOk (Some c) /\ outputs c = ["gate_2"].
Proof. eexists; split; vm_compute; reflexivity. Qed.

(* the hypothesis db_ok of the lookup theorems is satisfiable: this one-entry database has it *)
Example C17_example_db_ok : db_ok [("0001", C17_entry_0001)].
Proof.
  apply (swept_database_ok AIG_BASIS). intros k v H. simpl in H.
  destruct (leqb k "0001") eqn:E; [|discriminate]. apply leqb_eq in E. subst k. injection H as <-.
  apply check_entry_sound. exact C17_example_entry.
Qed.
