(* C16  The database codec never silently changes a circuit.
   Statements only; proofs live in Proofs/.  The model is of the repaired code
   (fixes/D13.patch); Python bytes are lists of ascii, a Python str is the string of its
   UTF-8 bytes, exceptions are Err kinds. *)
Require Import Cirbo.Model.Base Cirbo.Model.Gate Cirbo.Model.Den Cirbo.Model.Circuit Cirbo.Model.Eval Cirbo.Model.Sem.
Require Import Cirbo.Model.BitIO Cirbo.Model.DictIO Cirbo.Model.Codec Cirbo.Model.CodecCheck.
Require Import Cirbo.Generated.CodecTables.
Require Import Cirbo.Proofs.BitIOFacts Cirbo.Proofs.DictIOFacts Cirbo.Proofs.CodecTableFacts Cirbo.Proofs.CodecIds.
Require Import Cirbo.Proofs.IsoFacts Cirbo.Proofs.CodecFacts Cirbo.Proofs.CodecCheckFacts Cirbo.Proofs.C16Main.
Require Import Cirbo.Model.Db Cirbo.Generated.CodecAlgGen.
Require Import Cirbo.Proofs.CodecAlgGenBits Cirbo.Proofs.CodecAlgGenEnc Cirbo.Proofs.CodecAlgGenSum.

(* ---- the regenerated tables (translator T8) ---- *)
Theorem C16_type_codes_injective : forall a b n,
  gate_type_to_int a = Some n -> gate_type_to_int b = Some n -> a = b.
Proof. exact code_injective. Qed.

Theorem C16_type_codes_fit : forall g n,
  gate_type_to_int g = Some n -> (n < 2 ^ N.of_nat GATE_TYPE_BIT_SIZE)%N.
Proof. exact code_fits. Qed.

Theorem C16_type_code_tables_inverse : forall g n,
  gate_type_to_int g = Some n <-> int_to_gate_type n = Some g.
Proof. exact tables_inverse. Qed.

(* the operand count the format prescribes for a type is accepted by that type's operator *)
Theorem C16_format_arity_accepted : forall g n,
  gate_type_to_int g = Some n -> den_accepts g (get_arity g) = true.
Proof. exact format_arity_accepted. Qed.

(* ---- the regenerated algorithms (translator T16) ----
   Generated/CodecAlgGen.v is produced on every check from the STATEMENTS of bit_io.py, binary_dict_io.py and
   circuits_encoding.py (and Circuit.gates_number); every generated function equals the hand model the
   theorems below are about.  bw_of_bits bs / br_at data n (Proofs/CodecAlgGenBits.v) are the BitWriter state
   after writing the bits bs / the BitReader state after reading n bits of data (every state reachable from
   the constructors is of that form); a stream that is read is the list of bytes not yet read, a stream that
   is written the list of bytes written so far; zids injects the gate numbering into Z.  Side conditions:
   numbers, widths and lengths are natural numbers (Z.of_N / Z.of_nat), a reader position lies inside the
   data; the fuel of the `while pending` loop of _enumerate_gates is the number of non-input gates. *)
Theorem C16_codec_regenerated :
  (* bit_io.py *)
  (gen_BitWriter___init__ = Ok (bw_of_bits []) /\
  (forall bs, gen_BitWriter___bytes__ (bw_of_bits bs) = Ok (pack bs)) /\
  (forall bs b, gen_BitWriter_write (bw_of_bits bs) b = Ok (bw_of_bits (bs ++ [b]))) /\
  (forall bs x k, gen_BitWriter_write_number (bw_of_bits bs) (Z.of_N x) (Z.of_nat k)
                  = do nb <- write_number x k; Ok (bw_of_bits (bs ++ nb))) /\
  (forall bs x, gen_BitWriter_write_byte (bw_of_bits bs) (Z.of_N x)
                = do nb <- write_byte x; Ok (bw_of_bits (bs ++ nb))) /\
  (forall data, gen_BitReader___init__ data = Ok (br_at data 0)) /\
  (forall data n, (n <= 8 * length data)%nat ->
     gen_BitReader_read (br_at data n)
     = do br <- br_read (skipn n (unpack data)); Ok (fst br, br_at data (S n))) /\
  (forall data n k, (n <= 8 * length data)%nat ->
     gen_BitReader_read_number (br_at data n) (Z.of_nat k)
     = do xr <- read_number k (skipn n (unpack data)); Ok (Z.of_N (fst xr), br_at data (n + k))) /\
  (forall data n, (n <= 8 * length data)%nat ->
     gen_BitReader_read_byte (br_at data n)
     = do xr <- read_byte (skipn n (unpack data)); Ok (Z.of_N (fst xr), br_at data (n + 8))) /\
  (* and what the hand reader leaves is the stream without the bits read *)
  (forall k r x r', read_number k r = Ok (x, r') -> r' = skipn k r /\ (k <= length r)%nat)) /\
  (* binary_dict_io.py *)
  ((gen_DICT_SIZE_BYTE_SIZE = Z.of_nat DICT_SIZE_BYTE_SIZE /\
   gen_DICT_KEY_BYTE_SIZE = Z.of_nat DICT_KEY_BYTE_SIZE /\
   gen_DICT_VALUE_BYTE_SIZE = Z.of_nat DICT_VALUE_BYTE_SIZE) /\
  (forall s n, gen__read_exact_number_of_bytes s (Z.of_nat n) = read_exact n s) /\
  (forall s n, gen__read_unsigned_number s (Z.of_nat n)
               = do r <- read_unsigned n s; Ok (Z.of_N (fst r), snd r)) /\
  (forall s x n, gen__write_unsigned_number s (Z.of_N x) (Z.of_nat n) = do b <- to_bytes x n; Ok (s ++ b)) /\
  (forall s, gen__expect_eof s = do _ <- expect_eof s; Ok []) /\
  (forall s, gen_read_binary_dict s = do d <- read_binary_dict s; Ok (d, [])) /\
  (forall d s, gen_write_binary_dict d s = do b <- write_binary_dict d; Ok (s ++ b))) /\
  (* circuits_encoding.py, Circuit.gates_number *)
  (gen_GATE_TYPE_BIT_SIZE = Z.of_nat GATE_TYPE_BIT_SIZE /\
  (forall t, kget gtype_beq gen__gate_type_to_int t = option_map Z.of_N (gate_type_to_int t)) /\
  (forall n, kget Z.eqb gen__int_to_gate_type (Z.of_N n) = int_to_gate_type n) /\
  (forall t, gen__get_arity t = Ok (Z.of_nat (get_arity t))) /\
  (forall n, gen__generate_label (Z.of_N n) = Ok (gen_label n)) /\
  (forall c excl, gen_Circuit_gates_number c excl = Ok (Z.of_nat (gates_number c excl))) /\
  (forall c, gen_Circuit_gates_number c (Some [INPUT]) = Ok (Z.of_nat (intermediates c))) /\
  (forall c, gen__get_word_size c = Ok (Z.of_nat (word_size c))) /\
  (forall c, gen__enumerate_gates (length (non_input_labels c)) c = do d <- enumerate_gates c; Ok (zids d)) /\
  (forall bs ws, gen__encode_header (bw_of_bits bs) (Z.of_nat ws)
                 = do b <- write_byte (N.of_nat ws); Ok (bw_of_bits (bs ++ b))) /\
  (forall bs ws c, gen__encode_circuit_parameters (bw_of_bits bs) (Z.of_nat ws) c
     = do p1 <- write_number (N.of_nat (length (inputs c))) ws;
       do p2 <- write_number (N.of_nat (length (outputs c))) ws;
       do p3 <- write_number (N.of_nat (intermediates c)) ws;
       Ok (bw_of_bits (bs ++ p1 ++ p2 ++ p3))) /\
  (forall bs c d ws l g, get_gate c l = Ok g ->
     gen__encode_gate (bw_of_bits bs) (l, g) (zids d) (Z.of_nat ws)
     = do b <- encode_gate c d ws l; Ok (bw_of_bits (bs ++ b))) /\
  (forall bs c ws,
     gen__encode_circuit_body (length (non_input_labels c)) (bw_of_bits bs) (Z.of_nat ws) c
     = do d <- enumerate_gates c;
       do gb <- mapM (encode_gate c d ws) (dkeys d);
       do ob <- mapM (write_id d ws) (outputs c);
       Ok (bw_of_bits (bs ++ concat gb ++ concat ob))) /\
  (* encode_circuit: every circuit, same bytes or same error *)
  (forall c, gen_encode_circuit (length (non_input_labels c)) c = encode_circuit c) /\
  (* decode_circuit (with _decode_header, _decode_circuit_parameters, _decode_gate, _decode_circuit_body):
     every byte string, same circuit or same error *)
  (forall bs, gen_decode_circuit bs = decode_circuit bs)).
Proof. exact codec_regenerated. Qed.

(* ---- bit level ---- *)
(* bits written one by one and turned into bytes are read back unchanged (then < 8 padding bits) *)
Theorem C16_bits_roundtrip : forall bs,
  exists pad, read_bits (length bs) (unpack (pack bs)) = Ok (bs, pad) /\ (length pad < 8)%nat.
Proof. exact bits_roundtrip. Qed.

(* conversely every byte string is the packing of its bits *)
Theorem C16_bytes_roundtrip : forall bs : bytes, pack (unpack bs) = bs.
Proof. exact pack_unpack. Qed.

Theorem C16_reader_exhausted : forall k r,
  (length r < k)%nat -> read_number k r = Err BitIOError /\ read_bits k r = Err BitIOError.
Proof. exact reader_exhausted. Qed.

(* a number below 2^k is written on exactly k bits and read back, whatever follows *)
Theorem C16_number_roundtrip : forall x k rest,
  (x < 2 ^ N.of_nat k)%N ->
  exists b, write_number x k = Ok b /\ length b = k /\ read_number k (b ++ rest) = Ok (x, rest).
Proof. exact number_roundtrip_full. Qed.

Theorem C16_number_too_large : forall x k,
  (2 ^ N.of_nat k <= x)%N -> write_number x k = Err BitIOError.
Proof. exact write_number_too_large. Qed.

(* ---- dictionary level ---- *)
(* within the limits of the length fields (8-byte count, 2-byte key and value lengths) *)
Theorem C16_dict_roundtrip : forall d,
  dict_ok d -> within_limits d -> exists img, write_binary_dict d = Ok img /\ read_binary_dict img = Ok d.
Proof. exact dict_roundtrip_full. Qed.

Theorem C16_dict_rejects_truncated : forall d img p,
  dict_ok d -> write_binary_dict d = Ok img -> strict_prefix p img ->
  read_binary_dict p = Err BinaryDictIOError.
Proof. exact dict_rejects_truncated. Qed.

Theorem C16_dict_rejects_trailing : forall d img ext,
  dict_ok d -> write_binary_dict d = Ok img -> ext <> [] ->
  read_binary_dict (img ++ ext) = Err BinaryDictIOError.
Proof. exact dict_rejects_trailing. Qed.

(* ---- circuits ---- *)
(* whatever encode returns decodes, to an isomorphic circuit: never a silently different one *)
Theorem C16_encode_then_decode_isomorphic : forall c bs,
  codec_wf c -> encode_circuit c = Ok bs ->
  exists c' f, decode_circuit bs = Ok c' /\ iso f c c' /\ ops_exist c /\ outputs_exist c.
Proof. exact encode_then_decode. Qed.

Theorem C16_isomorphic_same_counts : forall f c c',
  iso f c c' ->
  length (inputs c') = length (inputs c) /\ length (outputs c') = length (outputs c) /\ size c' = size c.
Proof. exact iso_counts. Qed.

(* same truth table, gate for gate up to the renaming f: under the same vector of input
   values every gate of c and its image have the same value, outputs correspond by position *)
Theorem C16_isomorphic_same_function : forall f c c' vals,
  iso f c c' -> inputs_exist c ->
  (forall l v, Eval c (combine (inputs c) vals) l v -> Eval c' (combine (inputs c') vals) (f l) v) /\
  (forall j o, nth_error (outputs c) j = Some o -> nth_error (outputs c') j = Some (f o)) /\
  (ops_exist c -> forall l v, dmem (gates c) l = true ->
     Eval c' (combine (inputs c') vals) (f l) v -> Eval c (combine (inputs c) vals) l v).
Proof. exact iso_same_function. Qed.

(* the only errors of the encoder on a well-formed circuit are database-codec errors *)
Theorem C16_encode_errors_are_codec_errors : forall c e,
  codec_wf c -> outputs_exist c -> encode_circuit c = Err e -> e = CircuitEncodingError \/ e = BitIOError.
Proof. exact encode_errors_are_codec_errors. Qed.

(* circuits inside the format: encoding and decoding succeed whatever the gate-map order
   and the number of inputs (the word size must fit the one-byte header) *)
Theorem C16_format_circuits_encode : forall c,
  codec_wf c -> ops_exist c -> outputs_exist c -> acyclic c -> format_ok c -> (word_size c < 256)%nat ->
  exists bs c' f, encode_circuit c = Ok bs /\ decode_circuit bs = Ok c' /\ iso f c c'.
Proof. exact format_circuits_roundtrip. Qed.

(* the work-list loop of the repaired _enumerate_gates never runs out of the model's fuel *)
Theorem C16_enumeration_fuel_adequate : forall c, codec_wf c -> enumerate_gates c <> Err OutOfFuel.
Proof. exact enumeration_fuel_adequate. Qed.

(* ---- non-vacuity ---- *)
(* a circuit inside the format, stored out of dependency order (as rename_gate leaves it),
   with a constant gate carrying two operands: all hypotheses hold and it round-trips *)
Definition C16_example_circuit : circuit :=
  mkCircuit ["b"; "a"] ["h"; "k"; "h"]
    [("a", mkGate INPUT []); ("h", mkGate NOT ["g2"]); ("b", mkGate INPUT []);
     ("k", mkGate ALWAYS_TRUE ["a"; "h"]); ("g2", mkGate AND ["a"; "b"])]
    [("g2", ["h"]); ("a", ["g2"; "k"]); ("b", ["g2"]); ("h", ["k"])] [].

Example C16_example_hypotheses :
  codec_wf C16_example_circuit /\ ops_exist C16_example_circuit /\ outputs_exist C16_example_circuit
  /\ acyclic C16_example_circuit /\ format_ok C16_example_circuit /\ (word_size C16_example_circuit < 256)%nat
  /\ inputs_exist C16_example_circuit.
Proof.
  split; [apply codec_wfb_sound; vm_compute; reflexivity|].
  split; [apply ops_existb_sound; vm_compute; reflexivity|].
  split; [apply outputs_existb_sound; vm_compute; reflexivity|].
  split; [apply (acyclicb_sound ["a"; "b"; "g2"; "h"; "k"]); vm_compute; reflexivity|].
  split; [apply format_okb_sound; vm_compute; reflexivity|].
  split; [vm_compute; lia|].
  intros i [<-|[<-|[]]]; reflexivity.
Qed.

Example C16_example_roundtrip :
  exists bs, encode_circuit C16_example_circuit = Ok bs /\
  decode_circuit bs = Ok (mkCircuit ["gate_0"; "gate_1"] ["gate_3"; "gate_4"; "gate_3"]
    [("gate_0", mkGate INPUT []); ("gate_1", mkGate INPUT []); ("gate_2", mkGate AND ["gate_1"; "gate_0"]);
     ("gate_3", mkGate NOT ["gate_2"]); ("gate_4", mkGate ALWAYS_TRUE ["gate_1"; "gate_3"])]
    [("gate_1", ["gate_2"; "gate_4"]); ("gate_0", ["gate_2"]); ("gate_2", ["gate_3"]); ("gate_3", ["gate_4"])] []).
Proof. eexists; split; vm_compute; reflexivity. Qed.

(* the pinned defect D13 in the model's terms: an operand count outside the format is refused
   by the repaired encoder instead of being written and decoded as a different gate *)
Example C16_example_foreign_arity_rejected :
  encode_circuit (mkCircuit ["a"; "b"; "c"] ["g"]
    [("a", mkGate INPUT []); ("b", mkGate INPUT []); ("c", mkGate INPUT []); ("g", mkGate AND ["a"; "b"; "c"])]
    [("a", ["g"]); ("b", ["g"]); ("c", ["g"])] []) = Err CircuitEncodingError.
Proof. vm_compute; reflexivity. Qed.

Example C16_example_dict :
  let d := [("k1", ["v"%char]); (string_of_list_ascii [ascii_of_N 195; ascii_of_N 169], [])] in
  dict_ok d /\ within_limits d.
Proof.
  split; [split|split].
  - apply nodupb_NoDup; vm_compute; reflexivity.
  - repeat constructor.
  - vm_compute; reflexivity.
  - repeat constructor; vm_compute; reflexivity.
Qed.
