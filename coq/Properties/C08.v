(* C08  Multiplier and squarer generators compute exact products. (statements: work in progress) *)
Require Import Cirbo.Model.Base Cirbo.Model.Gate Cirbo.Model.Den Cirbo.Model.Circuit
  Cirbo.Model.Eval Cirbo.Model.Sem Cirbo.Model.Builder.
Require Import Cirbo.Model.ArithMul Cirbo.Model.ArithSquare.
Require Import Cirbo.Proofs.BuilderFacts.

Theorem C08_every_generator_only_extends : forall fresh A (p : prog A) s r s',
  run fresh p s = Ok (r, s') -> ext (bc s) (bc s').
Proof. exact run_ext. Qed.
