(* C08  Multiplier and squarer generators compute exact products.
   Statements only; proofs live in Proofs/ArithMul*.v and Proofs/ArithSquareFacts.v.

   Reading guide (as in C07 / C09).  `run fresh p s = Ok (r, s')`: the generator p, started on the builder
   state s (host circuit `bc s`, uuid counter `bk s`), returns r and leaves the state s'; `fresh` is the
   naming function of the uuid counter and is universally quantified.  `bvals c a ls bs`: under the
   assignment a the gates ls of circuit c have the Boolean values bs in the relational semantics
   Sem.Eval.  `decode be v`: the number spelt by the bit vector v (little endian; big endian when be).
   `ext c c'`: c' is c plus fresh non-INPUT gates whose operands exist (C08_extension_meaning): only
   fresh gates are added and every pre-existing gate keeps its function.
   `mul_len n m` = n + m - 1 when n = 1 or m = 1, else n + m; `sq_len n` = 1 when n = 1, else 2 n
   (C08_result_length_formulas): the numbers of result bits the property states.
   Operand labels xs, ys are ARBITRARY gates of the host (the hypotheses only ask that they have Boolean
   values under the assignment); repeated labels and identical operand lists are not excluded.

   Two label side conditions appear:
     has_gate (bc s') "" = false                  where add_sum_pow2_m1 is used (add_mul_pow2_m1, add_mul_karatsuba,
                                                  the squarers): its `filter(None, .)` would drop the empty label
     has_gate (bc s') PLACEHOLDER_STR = false     for add_mul_wallace, whose matrix marks empty cells with the
                                                  string '_PLACEHOLDER_STR_'
   Both hold whenever the labels of the circuit are non-empty and differ from the placeholder (the labels
   produced by generate_random_label always do).

   TWO KINDS OF STATEMENTS.  `C08_<mode>_exact` speaks about an arbitrary successful run (every naming
   function).  `C08_<mode>_total_exact` (last section) is unconditional: for every INJECTIVE naming function,
   every host and all non-empty lists of existing operand gates the generator returns Ok, with exactly the
   stated number of bits, and the bits decode to the product; there the two label side conditions are asked of
   the HOST and of the naming function (`forall k, fresh k <> ""`), from which they follow for the final
   circuit because generators only add gates under counter labels (C08_new_gates_carry_counter_labels). *)
Require Import Cirbo.Model.Base Cirbo.Model.Gate Cirbo.Model.Den Cirbo.Model.Circuit
  Cirbo.Model.Eval Cirbo.Model.Sem Cirbo.Model.Builder.
Require Import Cirbo.Generated.ArithTables Cirbo.Generated.ArithCells.
Require Import Cirbo.Model.ArithSub Cirbo.Model.ArithSum2 Cirbo.Model.ArithSumN Cirbo.Model.ArithSumW
  Cirbo.Model.ArithGen Cirbo.Model.SumCases Cirbo.Model.ArithMul Cirbo.Model.ArithSquare Cirbo.Model.MulCases.
Require Import Cirbo.Proofs.BuilderFacts Cirbo.Proofs.ArithFacts Cirbo.Proofs.ArithGenFacts
  Cirbo.Proofs.ArithSumStruct Cirbo.Proofs.ArithMulPow2 Cirbo.Proofs.ArithSquareFacts Cirbo.Proofs.ArithMulLen
  Cirbo.Proofs.ArithMulFinal Cirbo.Proofs.TotalFacts Cirbo.Proofs.FreshOnly Cirbo.Proofs.ArithMulTotalFinal.
Require Import Cirbo.Model.PyPrims Cirbo.Model.PyPrims08 Cirbo.Generated.ArithGen08 Cirbo.Proofs.ArithGen08F.
Require Import Coq.Logic.FinFun.
Open Scope Z_scope.

(* ---- the builder layer (shared with C07 / C09) --------------------------------------------------------- *)
Theorem C08_every_generator_only_extends : forall fresh A (p : prog A) s r s',
  run fresh p s = Ok (r, s') -> ext (bc s) (bc s').
Proof. exact run_ext. Qed.

Theorem C08_extension_meaning : forall c c',
  ext c c' ->
  (exists ng m, gates c' = gates c ++ ng /\ Forall (new_entry c) ng /\ NoDup (dkeys ng) /\
                inputs c' = inputs c /\ blocks c' = blocks c /\ outputs c' = outputs c ++ m) /\
  (forall a l v, Eval c a l v -> Eval c' a l v) /\
  (closed c -> closed c' /\ forall a l v, has_gate c l = true -> Eval c' a l v -> Eval c a l v).
Proof. exact ext_meaning. Qed.

Theorem C08_result_length_formulas :
  (forall n m, mul_len n m = if ((n =? 1) || (m =? 1))%nat then (n + m - 1)%nat else (n + m)%nat) /\
  (forall n, sq_len n = if (n =? 1)%nat then 1%nat else (2 * n)%nat).
Proof. exact result_length_formulas. Qed.

(* ---- the six multiplication modes, ALL operand widths ----------------------------------------------------- *)
(* default mode: partial products + add_sum_n_weighted_bits; the levels the weighted sum returns are 0, 1, 2, ...
   without a gap and there are exactly mul_len of them *)
Theorem C08_mul_default_exact : forall fresh xs ys be s rs s',
  run fresh (add_mul xs ys be) s = Ok (rs, s') ->
  ext (bc s) (bc s') /\ inputs (bc s') = inputs (bc s) /\ outputs (bc s') = outputs (bc s) /\
  length rs = mul_len (length xs) (length ys) /\
  forall asg xv yv, bvals (bc s) asg xs xv -> bvals (bc s) asg ys yv ->
    exists rv, bvals (bc s') asg rs rv /\ decode be rv = decode be xv * decode be yv.
Proof. exact add_mul_final. Qed.

Theorem C08_mul_alter_exact : forall fresh xs ys be s rs s',
  run fresh (add_mul_alter xs ys be) s = Ok (rs, s') ->
  ext (bc s) (bc s') /\ inputs (bc s') = inputs (bc s) /\ outputs (bc s') = outputs (bc s) /\
  ((1 <= length xs)%nat -> length rs = mul_len (length xs) (length ys)) /\
  forall asg xv yv, bvals (bc s) asg xs xv -> bvals (bc s) asg ys yv ->
    exists rv, bvals (bc s') asg rs rv /\ decode be rv = decode be xv * decode be yv.
Proof. exact add_mul_alter_final. Qed.

Theorem C08_mul_dadda_exact : forall fresh xs ys be s rs s',
  run fresh (add_mul_dadda xs ys be) s = Ok (rs, s') ->
  ext (bc s) (bc s') /\ inputs (bc s') = inputs (bc s) /\ outputs (bc s') = outputs (bc s) /\
  length rs = mul_len (length xs) (length ys) /\
  forall asg xv yv, bvals (bc s) asg xs xv -> bvals (bc s) asg ys yv ->
    exists rv, bvals (bc s') asg rs rv /\ decode be rv = decode be xv * decode be yv.
Proof. exact add_mul_dadda_final. Qed.

(* Wallace (the code repaired by fixes/D29.patch, see Model/ArithMul.v): the product for all widths and EXACTLY
   mul_len result bits.  The length needs the placeholder side condition as well: a gate that happened to be
   called '_PLACEHOLDER_STR_' would be taken for an empty cell and could shorten the last two rows.  (That the
   final shifted adder always returns n + m bits is proved by showing that the occupancy pattern of the cell
   matrix depends on the widths only and by evaluating one witness run per width pair on the all-ones
   operands, whose product needs n + m bits.)
   On the pinned code the product is WRONG for n = 2, m >= 11 (e.g. 3 * 704 = 1088): empty cells between
   gates of the last two rows were skipped. *)
Theorem C08_mul_wallace_exact : forall fresh xs ys be s rs s',
  run fresh (add_mul_wallace xs ys be) s = Ok (rs, s') ->
  ext (bc s) (bc s') /\ inputs (bc s') = inputs (bc s) /\ outputs (bc s') = outputs (bc s) /\
  (has_gate (bc s') PLACEHOLDER_STR = false ->
   ((1 <= length xs)%nat -> length rs = mul_len (length xs) (length ys)) /\
   forall asg xv yv, bvals (bc s) asg xs xv -> bvals (bc s) asg ys yv ->
     exists rv, bvals (bc s') asg rs rv /\ decode be rv = decode be xv * decode be yv).
Proof. exact add_mul_wallace_final_exact. Qed.

Theorem C08_mul_pow2_m1_exact : forall fresh xs ys be s rs s',
  run fresh (add_mul_pow2_m1 xs ys be) s = Ok (rs, s') ->
  ext (bc s) (bc s') /\ inputs (bc s') = inputs (bc s) /\ outputs (bc s') = outputs (bc s) /\
  length rs = mul_len (length xs) (length ys) /\
  (has_gate (bc s') "" = false ->
   forall asg xv yv, bvals (bc s) asg xs xv -> bvals (bc s) asg ys yv ->
     exists rv, bvals (bc s') asg rs rv /\ decode be rv = decode be xv * decode be yv).
Proof. exact add_mul_pow2_m1_final. Qed.

(* MulMode.KARATSUBA = add_mul_karatsuba_with_efficient_sum: every width, including those that enter the
   recursion (n = 18, n >= 20) any number of levels deep; unequal widths are padded *)
Theorem C08_mul_karatsuba_exact : forall fresh xs ys be s rs s',
  run fresh (add_mul_karatsuba_with_efficient_sum xs ys be) s = Ok (rs, s') ->
  ext (bc s) (bc s') /\ inputs (bc s') = inputs (bc s) /\ outputs (bc s') = outputs (bc s) /\
  ((1 <= length xs)%nat -> (1 <= length ys)%nat -> length rs = mul_len (length xs) (length ys)) /\
  forall asg xv yv, bvals (bc s) asg xs xv -> bvals (bc s) asg ys yv ->
    exists rv, bvals (bc s') asg rs rv /\ decode be rv = decode be xv * decode be yv.
Proof. exact add_mul_karatsuba_with_efficient_sum_final. Qed.

(* add_mul_karatsuba (Karatsuba over add_mul_pow2_m1; used by add_square) *)
Theorem C08_mul_karatsuba_pow2_exact : forall fresh xs ys be s rs s',
  run fresh (add_mul_karatsuba xs ys be) s = Ok (rs, s') ->
  ext (bc s) (bc s') /\ inputs (bc s') = inputs (bc s) /\ outputs (bc s') = outputs (bc s) /\
  ((1 <= length xs)%nat -> (1 <= length ys)%nat -> length rs = mul_len (length xs) (length ys)) /\
  (has_gate (bc s') "" = false ->
   forall asg xv yv, bvals (bc s) asg xs xv -> bvals (bc s) asg ys yv ->
     exists rv, bvals (bc s') asg rs rv /\ decode be rv = decode be xv * decode be yv).
Proof. exact add_mul_karatsuba_final. Qed.

(* the private helper of the Karatsuba mode: equal widths (or one single bit) only - it raises otherwise *)
Theorem C08_last_step_exact : forall fresh xs ys be s rs s',
  run fresh (last_step_sum_with_new_powers_sum xs ys be) s = Ok (rs, s') ->
  ext (bc s) (bc s') /\ inputs (bc s') = inputs (bc s) /\ outputs (bc s') = outputs (bc s) /\
  length rs = mul_len (length xs) (length ys) /\
  (length xs = length ys \/ length xs = 1%nat \/ length ys = 1%nat) /\
  forall asg xv yv, bvals (bc s) asg xs xv -> bvals (bc s) asg ys yv ->
    exists rv, bvals (bc s') asg rs rv /\ decode be rv = decode be xv * decode be yv.
Proof. exact last_step_final. Qed.

(* ---- the two squaring modes, ALL widths (add_square: including the split at n >= 48) ------------------------ *)
Theorem C08_square_exact : forall fresh xs be s rs s',
  run fresh (add_square xs be) s = Ok (rs, s') ->
  ext (bc s) (bc s') /\ inputs (bc s') = inputs (bc s) /\ outputs (bc s') = outputs (bc s) /\
  length rs = sq_len (length xs) /\
  (has_gate (bc s') "" = false ->
   forall asg xv, bvals (bc s) asg xs xv ->
     exists rv, bvals (bc s') asg rs rv /\ decode be rv = decode be xv * decode be xv).
Proof. exact add_square_final. Qed.

Theorem C08_square_pow2_m1_exact : forall fresh xs be s rs s',
  run fresh (add_square_pow2_m1 xs be) s = Ok (rs, s') ->
  ext (bc s) (bc s') /\ inputs (bc s') = inputs (bc s) /\ outputs (bc s') = outputs (bc s) /\
  length rs = sq_len (length xs) /\
  (has_gate (bc s') "" = false ->
   forall asg xv, bvals (bc s) asg xs xv ->
     exists rv, bvals (bc s') asg rs rv /\ decode be rv = decode be xv * decode be xv).
Proof. exact add_square_pow2_m1_final. Qed.

(* ---- the dispatching wrappers ----------------------------------------------------------------------------------- *)
(* generate_mul(n, m, type=t, big_endian=be): inputs as created, outputs = the product, for every MulMode *)
Theorem C08_generate_mul : forall fresh k0 ins size_a t be c,
  generate_mul fresh k0 ins size_a t be = Ok c ->
  has_gate c "" = false -> has_gate c PLACEHOLDER_STR = false ->
  inputs c = ins /\
  forall asg bs, assigns asg ins bs ->
    exists rv, bvals c asg (outputs c) rv /\
      decode be rv = decode be (firstn size_a bs) * decode be (skipn size_a bs).
Proof. exact generate_mul_correct. Qed.

Theorem C08_generate_square : forall fresh k0 ins t be c,
  generate_square fresh k0 ins t be = Ok c -> has_gate c "" = false ->
  inputs c = ins /\ length (outputs c) = sq_len (length ins) /\
  forall asg bs, assigns asg ins bs ->
    exists rv, bvals c asg (outputs c) rv /\ decode be rv = decode be bs * decode be bs.
Proof. exact generate_square_correct. Qed.

(* ---- termination: the generators return, for ALL widths -------------------------------------------------------------- *)
(* `all_exist c ls`: every label of ls names a gate of c.  Hypotheses: the naming function of the uuid counter is
   injective (Python: uuid4 does not repeat), the operand lists are non-empty (the code raises IndexError /
   ValueError / AssertionError on an empty operand, or - add_mul_wallace with an empty second operand - does not
   terminate) and name gates of the host.  Conclusion: the run returns Ok (the fuel of every modelled `while`
   loop suffices, no IndexError / AssertionError path is taken), the result has exactly mul_len / sq_len labels
   and decodes to the product / square. *)
Theorem C08_new_gates_carry_counter_labels : forall fresh xs ys be t s rs s',
  run fresh (process_mul t xs ys be) s = Ok (rs, s') ->
  forall l, has_gate (bc s') l = true -> has_gate (bc s) l = true \/ exists k, l = fresh k.
Proof. exact (fun fresh xs ys be t => fo_labels fresh _ (fo_process_mul t xs ys be)). Qed.

Theorem C08_mul_default_total_exact : forall fresh, Injective fresh -> forall xs ys be s,
  xs <> [] -> ys <> [] -> all_exist (bc s) xs -> all_exist (bc s) ys ->
  exists rs s', run fresh (add_mul xs ys be) s = Ok (rs, s') /\
    ext (bc s) (bc s') /\ inputs (bc s') = inputs (bc s) /\ outputs (bc s') = outputs (bc s) /\
    length rs = mul_len (length xs) (length ys) /\
    forall asg xv yv, bvals (bc s) asg xs xv -> bvals (bc s) asg ys yv ->
      exists rv, bvals (bc s') asg rs rv /\ decode be rv = decode be xv * decode be yv.
Proof. exact add_mul_total_exact. Qed.

Theorem C08_mul_alter_total_exact : forall fresh, Injective fresh -> forall xs ys be s,
  xs <> [] -> ys <> [] -> all_exist (bc s) xs -> all_exist (bc s) ys ->
  exists rs s', run fresh (add_mul_alter xs ys be) s = Ok (rs, s') /\
    ext (bc s) (bc s') /\ inputs (bc s') = inputs (bc s) /\ outputs (bc s') = outputs (bc s) /\
    length rs = mul_len (length xs) (length ys) /\
    forall asg xv yv, bvals (bc s) asg xs xv -> bvals (bc s) asg ys yv ->
      exists rv, bvals (bc s') asg rs rv /\ decode be rv = decode be xv * decode be yv.
Proof. exact add_mul_alter_total_exact. Qed.

Theorem C08_mul_dadda_total_exact : forall fresh, Injective fresh -> forall xs ys be s,
  xs <> [] -> ys <> [] -> all_exist (bc s) xs -> all_exist (bc s) ys ->
  exists rs s', run fresh (add_mul_dadda xs ys be) s = Ok (rs, s') /\
    ext (bc s) (bc s') /\ inputs (bc s') = inputs (bc s) /\ outputs (bc s') = outputs (bc s) /\
    length rs = mul_len (length xs) (length ys) /\
    forall asg xv yv, bvals (bc s) asg xs xv -> bvals (bc s) asg ys yv ->
      exists rv, bvals (bc s') asg rs rv /\ decode be rv = decode be xv * decode be yv.
Proof. exact add_mul_dadda_total_exact. Qed.

Theorem C08_mul_wallace_total_exact : forall fresh, Injective fresh -> forall xs ys be s,
  (forall k, fresh k <> PLACEHOLDER_STR) -> has_gate (bc s) PLACEHOLDER_STR = false ->
  xs <> [] -> ys <> [] -> all_exist (bc s) xs -> all_exist (bc s) ys ->
  exists rs s', run fresh (add_mul_wallace xs ys be) s = Ok (rs, s') /\
    ext (bc s) (bc s') /\ inputs (bc s') = inputs (bc s) /\ outputs (bc s') = outputs (bc s) /\
    length rs = mul_len (length xs) (length ys) /\
    forall asg xv yv, bvals (bc s) asg xs xv -> bvals (bc s) asg ys yv ->
      exists rv, bvals (bc s') asg rs rv /\ decode be rv = decode be xv * decode be yv.
Proof. exact add_mul_wallace_total_exact. Qed.

Theorem C08_mul_pow2_m1_total_exact : forall fresh, Injective fresh -> (forall k, fresh k <> ""%string) ->
  forall xs ys be s, has_gate (bc s) "" = false ->
  xs <> [] -> ys <> [] -> all_exist (bc s) xs -> all_exist (bc s) ys ->
  exists rs s', run fresh (add_mul_pow2_m1 xs ys be) s = Ok (rs, s') /\
    ext (bc s) (bc s') /\ inputs (bc s') = inputs (bc s) /\ outputs (bc s') = outputs (bc s) /\
    length rs = mul_len (length xs) (length ys) /\
    forall asg xv yv, bvals (bc s) asg xs xv -> bvals (bc s) asg ys yv ->
      exists rv, bvals (bc s') asg rs rv /\ decode be rv = decode be xv * decode be yv.
Proof. exact add_mul_pow2_m1_total_exact. Qed.

(* MulMode.KARATSUBA: the recursion on the width terminates within the fuel max(n, m) + 1 *)
Theorem C08_mul_karatsuba_total_exact : forall fresh, Injective fresh -> forall xs ys be s,
  xs <> [] -> ys <> [] -> all_exist (bc s) xs -> all_exist (bc s) ys ->
  exists rs s', run fresh (add_mul_karatsuba_with_efficient_sum xs ys be) s = Ok (rs, s') /\
    ext (bc s) (bc s') /\ inputs (bc s') = inputs (bc s) /\ outputs (bc s') = outputs (bc s) /\
    length rs = mul_len (length xs) (length ys) /\
    forall asg xv yv, bvals (bc s) asg xs xv -> bvals (bc s) asg ys yv ->
      exists rv, bvals (bc s') asg rs rv /\ decode be rv = decode be xv * decode be yv.
Proof. exact add_mul_karatsuba_eff_total_exact. Qed.

Theorem C08_mul_karatsuba_pow2_total_exact : forall fresh, Injective fresh -> (forall k, fresh k <> ""%string) ->
  forall xs ys be s, has_gate (bc s) "" = false ->
  xs <> [] -> ys <> [] -> all_exist (bc s) xs -> all_exist (bc s) ys ->
  exists rs s', run fresh (add_mul_karatsuba xs ys be) s = Ok (rs, s') /\
    ext (bc s) (bc s') /\ inputs (bc s') = inputs (bc s) /\ outputs (bc s') = outputs (bc s) /\
    length rs = mul_len (length xs) (length ys) /\
    forall asg xv yv, bvals (bc s) asg xs xv -> bvals (bc s) asg ys yv ->
      exists rv, bvals (bc s') asg rs rv /\ decode be rv = decode be xv * decode be yv.
Proof. exact add_mul_karatsuba_total_exact. Qed.

(* the private helper works on equal widths (what Karatsuba passes) or with a single-bit operand *)
Theorem C08_last_step_total_exact : forall fresh, Injective fresh -> forall xs ys be s,
  xs <> [] -> ys <> [] -> (length ys = length xs \/ length xs = 1%nat \/ length ys = 1%nat) ->
  all_exist (bc s) xs -> all_exist (bc s) ys ->
  exists rs s', run fresh (last_step_sum_with_new_powers_sum xs ys be) s = Ok (rs, s') /\
    ext (bc s) (bc s') /\ inputs (bc s') = inputs (bc s) /\ outputs (bc s') = outputs (bc s) /\
    length rs = mul_len (length xs) (length ys) /\
    forall asg xv yv, bvals (bc s) asg xs xv -> bvals (bc s) asg ys yv ->
      exists rv, bvals (bc s') asg rs rv /\ decode be rv = decode be xv * decode be yv.
Proof. exact last_step_total_exact. Qed.

(* add_square: the split recursion (n >= 48, n not in {49, 53}) terminates within the fuel n + 1 *)
Theorem C08_square_total_exact : forall fresh, Injective fresh -> (forall k, fresh k <> ""%string) ->
  forall xs be s, has_gate (bc s) "" = false -> xs <> [] -> all_exist (bc s) xs ->
  exists rs s', run fresh (add_square xs be) s = Ok (rs, s') /\
    ext (bc s) (bc s') /\ inputs (bc s') = inputs (bc s) /\ outputs (bc s') = outputs (bc s) /\
    length rs = sq_len (length xs) /\
    forall asg xv, bvals (bc s) asg xs xv ->
      exists rv, bvals (bc s') asg rs rv /\ decode be rv = decode be xv * decode be xv.
Proof. exact add_square_total_exact. Qed.

Theorem C08_square_pow2_m1_total_exact : forall fresh, Injective fresh -> (forall k, fresh k <> ""%string) ->
  forall xs be s, has_gate (bc s) "" = false -> xs <> [] -> all_exist (bc s) xs ->
  exists rs s', run fresh (add_square_pow2_m1 xs be) s = Ok (rs, s') /\
    ext (bc s) (bc s') /\ inputs (bc s') = inputs (bc s) /\ outputs (bc s') = outputs (bc s) /\
    length rs = sq_len (length xs) /\
    forall asg xv, bvals (bc s) asg xs xv ->
      exists rv, bvals (bc s') asg rs rv /\ decode be rv = decode be xv * decode be xv.
Proof. exact add_square_pow2_m1_total_exact. Qed.

(* ---- the models above ARE the source: second tie (translators T19, T22) ------------------------------------------------ *)
(* gen_<f> (Generated/ArithGen08.v) is derived by translator/t19_mul_gen.py (add_mul_wallace: its extension
   translator/t22_wallace.py) from the CURRENT text of
   cirbo/synthesis/generation/arithmetics/multiplication.py and square.py, statement by statement, on every run of the
   check (Python ints as Z; lists, item stores, append, deque.popleft with Python semantics: Model/PyPrims.v,
   PyPrims08.v and PyPrimsWal.v; `while` loops and the functions that call themselves on the fuel of the hand model; the
   two nested closures of add_mul_wallace as local state-passing functions, the list the closure `_zero` mutates being
   passed in and handed back; the summation / subtraction generators of C07 / C09 are the hand models, of which only the
   signatures are read; the primitives are add_gate_from_tt and the regenerated cells add_sum2 / add_sum3).  Each of them
   runs exactly like the hand model the theorems above are about: same result, same final state, same error -- for every
   argument, every host state and every naming function (for add_mul_wallace also one that hands out the placeholder
   string, and also where the hand model runs out of fuel: an empty second operand).  Side conditions: the private
   last_step_sum_with_new_powers_sum is not called with ONE empty
   operand and the other of two or more bits (Python: ValueError from max([]) inside add_sum_n_weighted_bits, hand model:
   IndexError; Proofs/ArithGen08F.v: last_step_empty_operand_differs; never the case inside the Karatsuba recursion,
   which pads to equal widths first, so MulMode.KARATSUBA needs no side condition); a negative size_of_input_a of
   generate_mul is a Python slice from the end, which the nat parameter of the hand model cannot express
   (generate_mul_negative_size_differs).  add_mul_wallace (Proofs/ArithGen08W*.v): the source keeps its matrix as a list of
   columns of labels with '_PLACEHOLDER_STR_' for "no gate", the hand model as a list of rows of option cells; the
   invariant of every loop is that the one is the transposition of the other (c = colsof (n + m) rows), and the lazily
   created constant-false gate of the last loop is created by the hand model up front exactly when a gap exists
   (has_gap).  Every entry of the regenerated _process_mul is a regenerated function.  py_bare_labels n =
   [str(0); ...; str(n-1)] are the inputs of Circuit.bare_circuit(n). *)
Theorem C08_generators_regenerated :
  (forall a b be fresh s, run fresh (gen_add_mul a b be) s = run fresh (add_mul a b be) s) /\
  (forall a b be fresh s, run fresh (gen_add_mul_alter a b be) s = run fresh (add_mul_alter a b be) s) /\
  (forall a b be fresh s, run fresh (gen_add_mul_pow2_m1 a b be) s = run fresh (add_mul_pow2_m1 a b be) s) /\
  (forall a b be fresh s, run fresh (gen_add_mul_dadda a b be) s = run fresh (add_mul_dadda a b be) s) /\
  (forall a b be fresh s, run fresh (gen_add_mul_wallace a b be) s = run fresh (add_mul_wallace a b be) s) /\
  (forall a b be fresh s,
     (length a = 0%nat -> (length b <= 1)%nat) -> (length b = 0%nat -> (length a <= 1)%nat) ->
     run fresh (gen_last_step_sum_with_new_powers_sum a b be) s
     = run fresh (last_step_sum_with_new_powers_sum a b be) s) /\
  (forall a b be fresh s, run fresh (gen_add_mul_karatsuba a b be) s = run fresh (add_mul_karatsuba a b be) s) /\
  (forall a b be fresh s,
     run fresh (gen_add_mul_karatsuba_with_efficient_sum a b be) s
     = run fresh (add_mul_karatsuba_with_efficient_sum a b be) s) /\
  (forall x be fresh s, run fresh (gen_add_square_pow2_m1 x be) s = run fresh (add_square_pow2_m1 x be) s) /\
  (forall x be fresh s, run fresh (gen_add_square x be) s = run fresh (add_square x be) s) /\
  (* the recursions, for every fuel *)
  (forall fuel a b be fresh s,
     run fresh (gen_add_mul_karatsuba_rec fuel a b be) s
     = run fresh (kara (fun x y => add_mul_pow2_m1 x y false) fuel a b be) s) /\
  (forall fuel a b be fresh s,
     run fresh (gen_add_mul_karatsuba_with_efficient_sum_rec fuel a b be) s
     = run fresh (kara (fun x y => last_step_sum_with_new_powers_sum x y false) fuel a b be) s) /\
  (forall fuel x be fresh s, run fresh (gen_add_square_rec fuel x be) s = run fresh (square_rec fuel x be) s) /\
  (* the dispatch tables _process_mul / _process_square and the wrappers generate_mul / generate_square *)
  (forall t a b be fresh s, run fresh (gen__process_mul t a b be) s = run fresh (process_mul t a b be) s) /\
  (forall t x be fresh s, run fresh (gen__process_square t x be) s = run fresh (process_square t x be) s) /\
  (forall fresh k0 sa sb t be, 0 <= sa ->
     gen_generate_mul fresh k0 sa sb t be = generate_mul fresh k0 (py_bare_labels (sa + sb)) (Z.to_nat sa) t be) /\
  (forall fresh k0 n t be,
     gen_generate_square fresh k0 n t be = generate_square fresh k0 (py_bare_labels n) t be).
Proof. exact generators_regenerated08. Qed.

(* ---- non-vacuity: the hypotheses are satisfiable ---------------------------------------------------------------------- *)
Definition demo_host : circuit :=
  match circuit_with_inputs ["a"; "b"; "c"; "d"; "e"] with Ok c => c | Err _ => empty_circuit end.

Example C08_nonvacuous_modes :
  forallb (fun f => is_ok (run hex_label (run_mulfn f ["a"; "b"; "c"] ["d"; "e"] true) (mkB demo_host 1)))
          all_mul_fns = true /\
  is_ok (run hex_label (add_mul_dadda ["a"; "a"; "b"] ["b"; "a"; "e"] false) (mkB demo_host 7)) = true.
Proof. vm_compute. split; reflexivity. Qed.

Example C08_nonvacuous_squares :
  is_ok (run hex_label (add_square ["a"; "b"; "c"; "d"; "e"] true) (mkB demo_host 1)) = true /\
  is_ok (run hex_label (add_square_pow2_m1 ["e"; "e"; "a"] false) (mkB demo_host 1)) = true /\
  is_ok (generate_mul hex_label 1 ["0"; "1"; "2"; "3"; "4"] 2 MWallace false) = true /\
  is_ok (generate_square hex_label 1 ["0"; "1"; "2"] SDefault true) = true.
Proof. vm_compute. repeat split. Qed.

(* the hypotheses of the `total_exact` theorems: an injective naming function that never yields "" or the
   placeholder, a host in which neither is a gate, existing operands *)
Example C08_nonvacuous_total :
  Injective short_label /\ (forall k, short_label k <> ""%string) /\ (forall k, short_label k <> PLACEHOLDER_STR) /\
  has_gate demo_host "" = false /\ has_gate demo_host PLACEHOLDER_STR = false /\
  all_exist demo_host ["a"; "b"; "c"] /\ all_exist demo_host ["d"; "e"].
Proof.
  split; [exact short_label_injective|]. split; [exact short_label_nonempty'|].
  split; [intros k; destruct k; discriminate|]. repeat split; repeat constructor.
Qed.

(* the placeholder side condition of C08_mul_wallace_exact is needed for the LENGTH too: with a naming function that
   hands out '_PLACEHOLDER_STR_' (here for the second partial product) the 2 x 2 Wallace multiplier returns 3 labels *)
Definition placeholder_at (j k : N) : label := if (k =? j)%N then PLACEHOLDER_STR else short_label k.

Example C08_wallace_length_needs_the_placeholder_condition :
  exists rs s', run (placeholder_at 2) (add_mul_wallace ["a"; "b"] ["d"; "e"] false) (mkB demo_host 1) = Ok (rs, s') /\
    length rs = 3%nat /\ mul_len 2 2 = 4%nat /\ has_gate (bc s') PLACEHOLDER_STR = true.
Proof. vm_compute. eexists _, _. repeat split. Qed.
