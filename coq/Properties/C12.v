(* C12 (stub) *)
Require Import Cirbo.Model.Base Cirbo.Model.FuncProto Cirbo.Model.FuncProtoCases.
