(* C12  All function representations answer every protocol query alike and correctly.
   Statements only; proofs live in Proofs/FuncProto*.v.

   f : list bool -> list bool is a Boolean function with arities n m.  `represented3 f n m c t p`
   says that c, t, p are its three representations:
     - the circuit c computes f through Circuit.evaluate / evaluate_at (that evaluation is the
       netlist semantics is the subject of C01),
     - t = TruthTable(tt_of f n m), the table of f in canonical enumeration order (m >= 1: a
       TruthTable cannot be built from an empty table),
     - the callable of the PyFunction p computes f.
   `all_answer c t p q a` : the three classes answer query q with the same value a (and without
   raising).  The queries are run by FuncProto.run_query, the dispatch that the correspondence
   check evaluates against the implementation.

   "monotone" is the DOCUMENTED notion of the protocol: the output sequence in canonical
   enumeration order 0..0, 0..01, ... is non-decreasing (inverse: non-increasing).  It is not
   monotonicity in the Boolean lattice.  *)
From Coq Require Import Permutation Sorted.
(* (the files of the Circuit side come first: Model/WF.v has its own arity_ok, FuncProto's is the one meant below) *)
Require Import Cirbo.Model.WF Cirbo.Generated.CircuitCore Cirbo.Generated.CircuitAlgos Cirbo.Generated.CircuitProtoGen.
Require Import Cirbo.Proofs.CircuitAlgosGen Cirbo.Proofs.CircuitAlgosGen2 Cirbo.Proofs.CircuitProtoGenLib
        Cirbo.Proofs.CircuitProtoGenSum.
Require Import Cirbo.Model.Base Cirbo.Model.Gate Cirbo.Model.Circuit Cirbo.Model.Eval
        Cirbo.Model.FuncProto.
Require Import Cirbo.Proofs.FuncProtoEnum Cirbo.Proofs.FuncProtoLoops Cirbo.Proofs.FuncProtoQueries
        Cirbo.Proofs.FuncProtoClasses Cirbo.Proofs.FuncProtoSym Cirbo.Proofs.FuncProtoMain
        Cirbo.Proofs.FuncProtoDefine Cirbo.Proofs.FuncProtoExt.
Require Import Cirbo.Model.FuncProtoCases.
Require Import Cirbo.Generated.TruthTableCore.
Require Import Cirbo.Proofs.TruthTableGenPrim Cirbo.Proofs.TruthTableGenTT Cirbo.Proofs.TruthTableGenModel
        Cirbo.Proofs.TruthTableGenPy Cirbo.Proofs.TruthTableGenAll.
Require Import Cirbo.Generated.PyFactoriesGen Cirbo.Proofs.PyFactoriesGen.

(* ---- enumeration orders ---- *)

(* itertools.product((False, True), repeat=n) lists the inputs by increasing canonical index *)
Theorem C12_product_is_canonical_order : forall n,
  map index_of (all_bool_vectors n) = seq 0 (2 ^ n).
Proof. exact abv_index. Qed.

(* input_iterator_with_fixed_sum yields exactly the x with popcount (x xor negations) = k, once each *)
Theorem C12_fixed_sum_iterator : forall n k negs, length negs = n ->
  exists l, fixed_sum n k (Some negs) = Ok l /\ NoDup l /\
            forall x, In x l <-> length x = n /\ popcount (xor_vec x negs) = k.
Proof. exact fixed_sum_enumerates. Qed.

Theorem C12_fixed_sum_iterator_no_negations : forall n k,
  exists l, fixed_sum n k None = Ok l /\ NoDup l /\
            forall x, In x l <-> length x = n /\ popcount x = k.
Proof. exact fixed_sum_enumerates_none. Qed.

(* symmetric (invariant under input permutations) <-> constant on every weight class *)
Theorem C12_symmetric_iff_constant_on_weight_classes : forall f n j,
  symmetric_at f n j <->
  forall x y, length x = n -> length y = n -> popcount x = popcount y -> out f j x = out f j y.
Proof. exact symmetric_at_weight. Qed.

(* the documented monotonicity is sortedness of the truth-table row *)
Theorem C12_monotone_is_sorted_row : forall f n j inverse,
  monotone_at f n j inverse <-> StronglySorted (ble inverse) (map (out f j) (all_bool_vectors n)).
Proof. exact monotone_at_sorted. Qed.

(* ---- the protocol queries: three classes, one answer, and it is the specification ---- *)

Theorem C12_evaluate : forall f n m c t p, represented3 f n m c t p -> forall x, length x = n ->
  all_answer c t p (QEvaluate x) (AVec (f x)).
Proof. exact three_evaluate. Qed.

Theorem C12_evaluate_at : forall f n m c t p, represented3 f n m c t p -> forall x j, length x = n -> j < m ->
  all_answer c t p (QEvaluateAt x j) (ABool (out f j x)).
Proof. exact three_evaluate_at. Qed.

Theorem C12_get_truth_table : forall f n m c t p, represented3 f n m c t p ->
  all_answer c t p QTruthTable (ATable (tt_of f n m)).
Proof. exact three_truth_table. Qed.

Theorem C12_sizes : forall f n m c t p, represented3 f n m c t p ->
  all_answer c t p QSizes (ANats [n; m]).
Proof. exact three_sizes. Qed.

Theorem C12_is_constant : forall f n m c t p, represented3 f n m c t p ->
  exists b, all_answer c t p QConstant (ABool b) /\ (b = true <-> constant f n m).
Proof. exact three_is_constant. Qed.

Theorem C12_is_constant_at : forall f n m c t p, represented3 f n m c t p -> forall j, j < m ->
  exists b, all_answer c t p (QConstantAt j) (ABool b) /\ (b = true <-> constant_at f n j).
Proof. exact three_is_constant_at. Qed.

Theorem C12_is_monotone : forall f n m c t p, represented3 f n m c t p -> forall inverse,
  exists b, all_answer c t p (QMonotone inverse) (ABool b) /\ (b = true <-> monotone f n m inverse).
Proof. exact three_is_monotone. Qed.

Theorem C12_is_monotone_at : forall f n m c t p, represented3 f n m c t p -> forall j inverse, j < m ->
  exists b, all_answer c t p (QMonotoneAt j inverse) (ABool b) /\ (b = true <-> monotone_at f n j inverse).
Proof. exact three_is_monotone_at. Qed.

Theorem C12_is_symmetric : forall f n m c t p, represented3 f n m c t p ->
  exists b, all_answer c t p QSymmetric (ABool b) /\ (b = true <-> symmetric f n m).
Proof. exact three_is_symmetric. Qed.

Theorem C12_is_symmetric_at : forall f n m c t p, represented3 f n m c t p -> forall j, j < m ->
  exists b, all_answer c t p (QSymmetricAt j) (ABool b) /\ (b = true <-> symmetric_at f n j).
Proof. exact three_is_symmetric_at. Qed.

Theorem C12_is_dependent_on_input_at : forall f n m c t p, represented3 f n m c t p ->
  forall j i, j < m -> i < n ->
  exists b, all_answer c t p (QDependent j i) (ABool b) /\ (b = true <-> dependent_on f n j i).
Proof. exact three_is_dependent. Qed.

Theorem C12_is_output_equal_to_input : forall f n m c t p, represented3 f n m c t p ->
  forall j i, j < m -> i < n ->
  exists b, all_answer c t p (QEqualInput j i) (ABool b) /\ (b = true <-> equal_to_input f n j i).
Proof. exact three_equal_to_input. Qed.

Theorem C12_is_output_equal_to_input_negation : forall f n m c t p, represented3 f n m c t p ->
  forall j i, j < m -> i < n ->
  exists b, all_answer c t p (QEqualInputNeg j i) (ABool b) /\
            (b = true <-> equal_to_input_negation f n j i).
Proof. exact three_equal_to_input_negation. Qed.

Theorem C12_get_significant_inputs_of : forall f n m c t p, represented3 f n m c t p ->
  forall j, j < m ->
  exists l, all_answer c t p (QSignificant j) (ANats l) /\ significant_inputs f n j l.
Proof. exact three_significant. Qed.

(* Some negs: negs makes the selected outputs symmetric; None: no negation vector does.
   The three classes return the same witness. *)
Theorem C12_find_negations_to_make_symmetric : forall f n m c t p, represented3 f n m c t p ->
  forall outs, (forall j, In j outs -> j < m) ->
  exists o, all_answer c t p (QFindNegations outs) (AOptVec o) /\
            match o with
            | Some negs => negations_make_symmetric f n outs negs
            | None => forall negs, ~ negations_make_symmetric f n outs negs
            end.
Proof. exact three_find_negations. Qed.

(* ---- completing a model ---- *)

(* PyFunctionModel.define: where the model's callable fixes a value the completed function has it;
   elsewhere it has the value the definition supplies; with a complete definition it is total *)
Theorem C12_define_python_model : forall p d x ans, pm_func p x = Ok ans -> length ans = pm_m p ->
  (forall r, py_func (pm_define p d) x = Ok r ->
     length r = pm_m p /\
     forall j, j < pm_m p ->
       match nth j ans DontCare with
       | Def b => nth j r false = b
       | DontCare => lookup_def d x j = Some (nth j r false)
       end)
  /\ ((forall j, j < pm_m p -> nth j ans DontCare = DontCare -> lookup_def d x j <> None) ->
      exists r, py_func (pm_define p d) x = Ok r).
Proof. exact pm_define_correct. Qed.

(* TruthTableModel.define (repaired, D16): the same statement on the table *)
Theorem C12_define_truth_table_model : forall n m tbl d, 1 <= m -> model_shape n m tbl -> wf_definition n m d ->
  (forall t, tm_define (mkTM n tbl (transpose tbl)) d = Ok t ->
     tt_n t = n /\ length (tt_table t) = m /\
     forall j x, j < m -> length x = n ->
       match cell tbl j x with
       | Def b => nth (index_of x) (nth j (tt_table t) []) false = b
       | DontCare => lookup_def d x j = Some (nth (index_of x) (nth j (tt_table t) []) false)
       end)
  /\ ((forall j x, j < m -> length x = n -> cell tbl j x = DontCare -> lookup_def d x j <> None) ->
      exists t, tm_define (mkTM n tbl (transpose tbl)) d = Ok t).
Proof. exact tm_define_correct. Qed.

(* ---- integer wrappers: bit order ---- *)

(* canonical_index_to_input is the big-endian encoding on `size` bits (of index mod 2^size) *)
Theorem C12_canonical_index_to_input : forall index size,
  length (canonical_index_to_input index size) = size /\
  index_of (canonical_index_to_input index size) = index mod 2 ^ size.
Proof. exact canonical_index_to_input_spec. Qed.

(* from_int_unary_func: big_endian reads and writes most significant bit first, otherwise least
   significant bit first; the result is func(value) mod 2^out_len on out_len bits *)
Theorem C12_from_int_unary_func : forall func in_len out_len big_endian args, length args = in_len ->
  exists r, int_unary_callable func in_len out_len big_endian args = Ok r /\ length r = out_len /\
            index_of (endian big_endian r) = func (index_of (endian big_endian args)) mod 2 ^ out_len.
Proof. exact int_unary_bit_order. Qed.

Theorem C12_from_int_binary_func : forall func in_len out_len big_endian a1 a2,
  length a1 = in_len -> length a2 = in_len ->
  exists r, int_binary_callable func in_len out_len big_endian (a1 ++ a2) = Ok r /\ length r = out_len /\
            index_of (endian big_endian r)
            = func (index_of (endian big_endian a1)) (index_of (endian big_endian a2)) mod 2 ^ out_len.
Proof. exact int_binary_bit_order. Qed.

(* the constructors: PyFunction(func, n) (output size read off func([False]*n)) and the wrappers *)
Theorem C12_pyfunction_constructor : forall func f n m, arity_ok f n m ->
  (forall x, length x = n -> func x = Ok (f x)) ->
  exists p, py_make func n None = Ok p /\ py_computes p f n m.
Proof. exact py_make_computes. Qed.

Theorem C12_from_int_unary_func_sizes : forall func in_len out_len big_endian,
  exists p, from_int_unary_func func in_len out_len big_endian = Ok p /\ py_n p = in_len /\ py_m p = out_len
            /\ py_func p = int_unary_callable func in_len out_len big_endian.
Proof. exact from_int_unary_sizes. Qed.

Theorem C12_from_int_binary_func_sizes : forall func in_len out_len big_endian,
  exists p, from_int_binary_func func in_len out_len big_endian = Ok p /\ py_n p = 2 * in_len /\ py_m p = out_len
            /\ py_func p = int_binary_callable func in_len out_len big_endian.
Proof. exact from_int_binary_sizes. Qed.

(* ---- the correspondence check memoises the circuit's evaluations; that is sound ---- *)
Theorem C12_memoised_circuit_queries : forall c q,
  run_query ClsCircuit (circ_rep_memo c) q = circuit_query c q.
Proof. exact memoised_circuit_query. Qed.

(* ---- non-vacuity: a function with its three representations ---- *)
Example C12_example_represented :
  exists t p, represented3 xor2 2 1 xor2_circuit t p
              /\ tt_table t = [[false; true; true; false]]
              /\ circuit_query xor2_circuit (QMonotone false) = Ok (ABool false)
              /\ circuit_query xor2_circuit QSymmetric = Ok (ABool true).
Proof. exact xor2_represented. Qed.

(* ---- the second tie to the code: the model above is what the source says ----

   Generated/TruthTableCore.v is produced from cirbo/core/utils.py, cirbo/core/circuit/utils.py
   (input_iterator_with_fixed_sum), cirbo/core/truth_table.py and cirbo/core/python_function.py (constructor
   and protocol methods of PyFunction / PyFunctionModel; the callable is a Gallina function) by
   translator/t11_truth_table.py on every check, statement by statement (gen_<function>, gen_<Class>_<method>).  Each regenerated definition equals
   the hand-model function the theorems above speak about.  Python ints are Z in the generated code; the hand
   model's sizes and indices are naturals, hence the arguments Z.of_nat _ (negative Python indices are outside
   the hand model).  An object is the record of the attributes that its __init__ assigns; gen_of_ttab t /
   gen_of_tm t / gen_of_py p / gen_of_pm p is the object that the hand model's t / p stands for; rmap maps over
   an Ok result.  No condition on the shape of the table is needed, except for TruthTableModel.define, whose final TruthTable(...) looks at
   the shape before it parses the cells while the hand model parses first: the two agree when the table of
   the model has a valid shape, which every constructed TruthTableModel has (second statement below). *)
Theorem C12_truth_table_regenerated :
  (* cirbo/core/utils.py and cirbo/core/circuit/utils.py *)
  (forall x : bvec, gen_input_to_canonical_index x = Ok (Z.of_nat (index_of x))) /\
  (forall index size : nat,
     gen_canonical_index_to_input (Z.of_nat index) (Z.of_nat size) = Ok (canonical_index_to_input index size)) /\
  (forall value bit_idx bit_size : nat,
     gen_get_bit_value (Z.of_nat value) (Z.of_nat bit_idx) (Z.of_nat bit_size) = get_bit_value value bit_idx bit_size) /\
  (forall (n k : nat) (negs : option bvec),
     gen_input_iterator_with_fixed_sum (Z.of_nat n) (Z.of_nat k) negs = fixed_sum n k negs) /\
  (* class TruthTable: constructor (resolve_input_size, _parse_bool), then every method *)
  (forall (A : Type) (table : list (list A)),
     gen_resolve_input_size table = rmap Z.of_nat (resolve_input_size table)) /\
  (forall table : list bvec, gen_TruthTable___init__ table = do t <- tt_make table; Ok (gen_of_ttab t)) /\
  (forall t, gen_TruthTable_input_size (gen_of_ttab t) = Ok (Z.of_nat (r_n (tt_rep t)))) /\
  (forall t, gen_TruthTable_output_size (gen_of_ttab t) = Ok (Z.of_nat (r_m (tt_rep t)))) /\
  (forall t x, gen_TruthTable_evaluate (gen_of_ttab t) x = r_ev (tt_rep t) x) /\
  (forall t x (j : nat), gen_TruthTable_evaluate_at (gen_of_ttab t) x (Z.of_nat j) = r_ev_at (tt_rep t) x j) /\
  (forall t (j : nat), gen_TruthTable_is_constant_at (gen_of_ttab t) (Z.of_nat j) = tt_is_constant_at t j) /\
  (forall t, gen_TruthTable_is_constant (gen_of_ttab t) = tt_is_constant t) /\
  (forall t (j : nat) inverse,
     gen_TruthTable_is_monotone_at (gen_of_ttab t) (Z.of_nat j) inverse = tt_is_monotone_at t j inverse) /\
  (forall t inverse, gen_TruthTable_is_monotone (gen_of_ttab t) inverse = tt_is_monotone t inverse) /\
  (forall t, gen_TruthTable_is_symmetric (gen_of_ttab t) = g_is_symmetric (tt_rep t)) /\
  (forall t (j : nat), gen_TruthTable_is_symmetric_at (gen_of_ttab t) (Z.of_nat j) = g_is_symmetric_at (tt_rep t) j) /\
  (forall t (j i : nat),
     gen_TruthTable_is_dependent_on_input_at (gen_of_ttab t) (Z.of_nat j) (Z.of_nat i) = g_is_dependent (tt_rep t) j i) /\
  (forall t (j i : nat),
     gen_TruthTable_is_output_equal_to_input (gen_of_ttab t) (Z.of_nat j) (Z.of_nat i) = tt_equal_to_input false t j i) /\
  (forall t (j i : nat),
     gen_TruthTable_is_output_equal_to_input_negation (gen_of_ttab t) (Z.of_nat j) (Z.of_nat i)
     = tt_equal_to_input true t j i) /\
  (forall t (j : nat),
     gen_TruthTable_get_significant_inputs_of (gen_of_ttab t) (Z.of_nat j)
     = rmap (map Z.of_nat) (g_significant (tt_rep t) j)) /\
  (forall t (outs : list nat),
     gen_TruthTable_find_negations_to_make_symmetric (gen_of_ttab t) (map Z.of_nat outs)
     = g_find_negations (tt_rep t) outs) /\
  (forall t, gen_TruthTable_get_truth_table (gen_of_ttab t) = Ok (tt_table t)) /\
  (* class TruthTableModel *)
  (forall table : list (list tri), gen_TruthTableModel___init__ table = do t <- tm_make table; Ok (gen_of_tm t)) /\
  (forall t, gen_TruthTableModel_input_size (gen_of_tm t) = Ok (Z.of_nat (tm_n t))) /\
  (forall t, gen_TruthTableModel_output_size (gen_of_tm t) = Ok (Z.of_nat (length (tm_table t)))) /\
  (forall t x, gen_TruthTableModel_check (gen_of_tm t) x = tm_check t x) /\
  (forall t x (j : nat), gen_TruthTableModel_check_at (gen_of_tm t) x (Z.of_nat j) = tm_check_at t x j) /\
  (forall t, gen_TruthTableModel_get_model_truth_table (gen_of_tm t) = Ok (tm_table t)) /\
  (forall t d n, resolve_input_size (tm_table t) = Ok n ->
     gen_TruthTableModel_define (gen_of_tm t) (map zitem d) = rmap gen_of_ttab (tm_define t d)) /\
  (* class PyFunction (the callable is a Gallina function): constructor and protocol methods *)
  (forall func (n : nat) (out : option nat),
     gen_PyFunction___init__ func (Z.of_nat n) (option_map Z.of_nat out) = rmap gen_of_py (py_make func n out)) /\
  (forall p, gen_PyFunction_input_size (gen_of_py p) = Ok (Z.of_nat (r_n (py_rep p)))) /\
  (forall p, gen_PyFunction_output_size (gen_of_py p) = Ok (Z.of_nat (r_m (py_rep p)))) /\
  (forall p x, gen_PyFunction_evaluate (gen_of_py p) x = r_ev (py_rep p) x) /\
  (forall p x (j : nat), gen_PyFunction_evaluate_at (gen_of_py p) x (Z.of_nat j) = r_ev_at (py_rep p) x j) /\
  (forall p, gen_PyFunction_is_constant (gen_of_py p) = g_is_constant (py_rep p)) /\
  (forall p (j : nat), gen_PyFunction_is_constant_at (gen_of_py p) (Z.of_nat j) = g_is_constant_at (py_rep p) j) /\
  (forall p inverse, gen_PyFunction_is_monotone (gen_of_py p) inverse = py_is_monotone p inverse) /\
  (forall p (j : nat) inverse,
     gen_PyFunction_is_monotone_at (gen_of_py p) (Z.of_nat j) inverse = py_is_monotone_at p j inverse) /\
  (forall p, gen_PyFunction_is_symmetric (gen_of_py p) = g_is_symmetric (py_rep p)) /\
  (forall p (j : nat), gen_PyFunction_is_symmetric_at (gen_of_py p) (Z.of_nat j) = g_is_symmetric_at (py_rep p) j) /\
  (forall p (j i : nat),
     gen_PyFunction_is_dependent_on_input_at (gen_of_py p) (Z.of_nat j) (Z.of_nat i) = g_is_dependent (py_rep p) j i) /\
  (forall p (j i : nat),
     gen_PyFunction_is_output_equal_to_input (gen_of_py p) (Z.of_nat j) (Z.of_nat i)
     = g_equal_to_input false (py_rep p) j i) /\
  (forall p (j i : nat),
     gen_PyFunction_is_output_equal_to_input_negation (gen_of_py p) (Z.of_nat j) (Z.of_nat i)
     = g_equal_to_input true (py_rep p) j i) /\
  (forall p (j : nat),
     gen_PyFunction_get_significant_inputs_of (gen_of_py p) (Z.of_nat j)
     = rmap (map Z.of_nat) (g_significant (py_rep p) j)) /\
  (forall p (outs : list nat),
     gen_PyFunction_find_negations_to_make_symmetric (gen_of_py p) (map Z.of_nat outs)
     = g_find_negations (py_rep p) outs) /\
  (forall p, gen_PyFunction_get_truth_table (gen_of_py p) = g_truth_table (py_rep p)) /\
  (* class PyFunctionModel *)
  (forall func (n : nat) (out : option nat),
     gen_PyFunctionModel___init__ func (Z.of_nat n) (option_map Z.of_nat out)
     = match out with
       | Some m => Ok (gen_of_pm (mkPM n m func))
       | None => do r <- func (repeat false n); Ok (gen_of_pm (mkPM n (length r) func))
       end) /\
  (forall p, gen_PyFunctionModel_input_size (gen_of_pm p) = Ok (Z.of_nat (pm_n p))) /\
  (forall p, gen_PyFunctionModel_output_size (gen_of_pm p) = Ok (Z.of_nat (pm_m p))) /\
  (forall p x, gen_PyFunctionModel_check (gen_of_pm p) x = pm_check p x) /\
  (forall p x (j : nat), gen_PyFunctionModel_check_at (gen_of_pm p) x (Z.of_nat j) = pm_check_at p x j) /\
  (forall p, gen_PyFunctionModel_get_model_truth_table (gen_of_pm p) = pm_model_truth_table p).
Proof. exact truth_table_regenerated. Qed.

(* the hypothesis of the last conjunct holds for every model that the constructor accepts *)
Example C12_truth_table_regenerated_define_applies : forall table t,
  tm_make table = Ok t -> resolve_input_size (tm_table t) = Ok (tm_n t).
Proof. exact tm_make_shape. Qed.

(* ---- the same tie for the third class: the protocol methods of Circuit ----

   Generated/CircuitProtoGen.v is produced from cirbo/core/circuit/circuit.py by translator/t25_circuit_proto.py on
   every check, statement by statement, with the machinery of T11 (loops with early return, next() on iterators,
   in-place item stores) on the circuit state of T9 / T10: gen_evaluate / gen_evaluate_at / gen_input_size are the
   functions T10 regenerates (Circuit.evaluate / evaluate_at / get_truth_table themselves are tied by
   C02_algorithms_regenerated), gen_input_iterator_with_fixed_sum the one of C12_truth_table_regenerated above;
   Circuit.gates_number is regenerated by T16 (C16_codec_regenerated).  Each regenerated method equals the function
   that FuncProto.run_query runs for ClsCircuit on circ_rep c, i.e. the function the query theorems above are about.
   The fuel parameters (Python has none) are those of the model's evaluators, as in C02.

   The generated code carries the GateStates that evaluate returns (tp.cast is the identity) while the hand model
   turns them into bools and would report an Undefined as GateStateError; the last two conjuncts show that no
   Undefined comes out of Boolean inputs, for any circuit, so the equalities need no hypothesis about values.
   fuel_ok c = fuel_suffices c \/ ~ has_self_loop c is the condition under which T10's evaluators equal the model's
   (the model's evaluators do not run out of fuel on Boolean vectors, or no gate is its own operand); it holds
   whenever the circuit computes a function (the hypothesis `circuit_computes` inside represented3) and for every
   well-formed circuit.  index_of_output has no counterpart in the hand model: it is specified directly (first
   index of the label). *)
Theorem C12_circuit_protocol_regenerated :
  (forall c, gen_output_size c = r_m (circ_rep c)) /\
  (forall c l i, gen_index_of_output c l = Ok i <->
                 nth_error (outputs c) i = Some l /\ forall j, j < i -> nth_error (outputs c) j <> Some l) /\
  (forall c l, ~ In l (outputs c) -> gen_index_of_output c l = Err GateDoesntExistError) /\
  (forall c, fuel_ok c ->
     gen_is_constant outputs_fuel outputs_fuel c = g_is_constant (circ_rep c) /\
     (forall j : nat, gen_is_constant_at at_fuel at_fuel c (Z.of_nat j) = g_is_constant_at (circ_rep c) j) /\
     (forall inverse, gen_is_monotone outputs_fuel c inverse = circ_is_monotone (circ_rep c) inverse) /\
     (forall (j : nat) inverse,
        gen_is_monotone_at at_fuel c (Z.of_nat j) inverse = circ_is_monotone_at (circ_rep c) j inverse) /\
     gen_is_symmetric outputs_fuel outputs_fuel c = g_is_symmetric (circ_rep c) /\
     (forall j : nat, gen_is_symmetric_at at_fuel at_fuel c (Z.of_nat j) = g_is_symmetric_at (circ_rep c) j) /\
     (forall j i : nat,
        gen_is_dependent_on_input_at at_fuel at_fuel c (Z.of_nat j) (Z.of_nat i) = g_is_dependent (circ_rep c) j i) /\
     (forall j i : nat,
        gen_is_output_equal_to_input at_fuel c (Z.of_nat j) (Z.of_nat i) = g_equal_to_input false (circ_rep c) j i) /\
     (forall j i : nat,
        gen_is_output_equal_to_input_negation at_fuel c (Z.of_nat j) (Z.of_nat i)
        = g_equal_to_input true (circ_rep c) j i) /\
     (forall j : nat,
        gen_get_significant_inputs_of at_fuel at_fuel c (Z.of_nat j)
        = rmap (map Z.of_nat) (g_significant (circ_rep c) j)) /\
     (forall outs : list nat,
        gen_find_negations_to_make_symmetric outputs_fuel outputs_fuel c (map Z.of_nat outs)
        = g_find_negations (circ_rep c) outs)) /\
  (forall c f n m, circuit_computes c f n m -> fuel_ok c) /\
  (forall c, WF c -> fuel_ok c) /\
  (forall c (x : bvec) vs, evaluate c (map inj x) = Ok vs -> ~ In U vs) /\
  (forall c (x : bvec) j, evaluate_at c (map inj x) j <> Ok U).
Proof. exact circuit_protocol_regenerated. Qed.

(* outside the side condition T10's corner shows through: a gate that is its own operand makes the source raise
   KeyError where the model's evaluator runs out of fuel (no Boolean function is computed either way) *)
Example C12_circuit_protocol_corner :
  ~ fuel_ok self_loop_circuit /\
  gen_is_constant outputs_fuel outputs_fuel self_loop_circuit = Err PyKeyError /\
  g_is_constant (circ_rep self_loop_circuit) = Err OutOfFuel.
Proof. exact circuit_protocol_corner. Qed.

(* ---- the same tie for what builds closures: the static factories and PyFunctionModel.define ----

   Generated/PyFactoriesGen.v is produced from cirbo/core/python_function.py by translator/t26_py_factories.py on every
   check, statement by statement, with the machinery of T11: a factory that builds a closure and passes it to a
   constructor is a Gallina function that takes the user's callable and returns the record of the constructed object
   whose `func` field is the translated closure; the constructors and input_to_canonical_index /
   canonical_index_to_input are the gen_* of C12_truth_table_regenerated.  functools.wraps is the identity on
   behaviour; `assert` raises AssertionError (no python -O).

   A record with a function inside cannot be compared with `=` without functional extensionality: res_rel R a b says
   that a and b raise the same exception or both return R-related values, and py_same g p / pm_same g p that g and p
   have the same sizes and `func` fields that agree on EVERY argument list (Proofs/PyFactoriesGen.v).

   Side conditions, all explicit in the statement:
   - sizes and definition indices are naturals (Z.of_nat _; zitem turns the index of a definition item into a Z);
   - the user's integer function is a total function on the naturals (zfun1 f / zfun2 f: it does not raise and
     returns no negative number - for a negative number the source raises ValueError from int('b'), outside the model);
   - from_positional has no hand-model counterpart and is specified directly: the callable is its behaviour on the
     list of positional arguments plus the list of parameter kinds that inspect.signature reports (an EXPLICIT
     modelling parameter); the result is PyFunction(func, number of parameters, output_size) when every parameter is
     POSITIONAL_ONLY or POSITIONAL_OR_KEYWORD and BadCallableError otherwise (printed PyTypeError: Base.err has no
     constructor for it); pm_make is the PyFunctionModel constructor in the hand model's terms;
   - define: tp.cast(Sequence[bool], answer) is the identity in Python; a DontCare left in the answer (possible only
     beyond output_size) is GateStateError on both sides (the hand model's tri_bool). *)
Theorem C12_factories_regenerated :
  (forall (f : nat -> nat) (in_len out_len : nat) (big_endian : bool),
      res_rel py_same
        (gen_PyFunction_from_int_unary_func (zfun1 f) (Z.of_nat in_len) (Z.of_nat out_len) big_endian)
        (from_int_unary_func f in_len out_len big_endian)) /\
  (forall (f : nat -> nat -> nat) (in_len out_len : nat) (big_endian : bool),
      res_rel py_same
        (gen_PyFunction_from_int_binary_func (zfun2 f) (Z.of_nat in_len) (Z.of_nat out_len) big_endian)
        (from_int_binary_func f in_len out_len big_endian)) /\
  (forall (func : bvec -> res bvec) (sig : list param_kind) (out : option nat),
      res_rel py_same
        (gen_PyFunction_from_positional func sig (option_map Z.of_nat out))
        (if all_positional sig then py_make func (length sig) out else Err PyTypeError)) /\
  (forall (func : bvec -> res (list tri)) (sig : list param_kind) (out : option nat),
      res_rel pm_same
        (gen_PyFunctionModel_from_positional func sig (option_map Z.of_nat out))
        (if all_positional sig then pm_make func (length sig) out else Err PyTypeError)) /\
  (forall (p : pymodel) (d : definition),
      res_rel py_same (gen_PyFunctionModel_define (gen_of_pm p) (map zitem d)) (Ok (pm_define p d))).
Proof. exact factories_regenerated. Qed.

(* the relation is not vacuous: on a concrete wrapper both sides return, and the regenerated closure computes
   3 * 5 mod 16 = 15 on the little-endian operands 3 = [1;1;0], 5 = [1;0;1] *)
Example C12_factories_regenerated_example :
  match gen_PyFunction_from_int_binary_func (zfun2 Nat.mul) 3%Z 4%Z false with
  | Ok g => PyFunction_func g [true; true; false; true; false; true] = Ok [true; true; true; true]
            /\ PyFunction_input_size g = 6%Z /\ PyFunction_output_size g = 4%Z
  | Err _ => False
  end.
Proof. exact factories_regenerated_example. Qed.
