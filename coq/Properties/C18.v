(* C18  Simplification passes achieve their stated effect; pipelines equal sequencing.
   Statements only; proofs live in Proofs/Pipeline.v, Proofs/EffectRR.v, Proofs/EffectMD.v,
   Proofs/EffectMU.v, Proofs/EffectME.v (helpers: TraverseDet.v, RebuildFacts.v).

   Vocabulary:
     outs_ok c          every label in `outputs c` names a gate of c (a clause of WF; every pass establishes it)
     reachable c l      l is reachable from `outputs c` along operand edges (zero or more)
     transform_leaf t   the `_transform` of a leaf transformer;  apply_linear = left fold of transform_leaf
     linearize          Transformer.linearize_transformers (implied post passes inserted, compositions flattened)
     apply_transformers Transformer.apply_transformers (linearize, drop an idempotent pass equal to its
                        predecessor, fold)  ;  transform t c = apply_transformers c [t]  ;  pipe a b = a | b *)
Require Import Cirbo.Model.Base Cirbo.Model.Gate Cirbo.Model.Circuit Cirbo.Model.Passes Cirbo.Model.WF.
Require Import Cirbo.Generated.GateTypes.
Require Import Cirbo.Model.Eval Cirbo.Model.Sem.
Require Import Cirbo.Proofs.RebuildFacts Cirbo.Proofs.EffectRR Cirbo.Proofs.Pipeline Cirbo.Proofs.EffectMD
               Cirbo.Proofs.EffectMU Cirbo.Proofs.TruthTableFacts Cirbo.Proofs.EffectME Cirbo.Proofs.C18Examples.
Require Import Cirbo.Generated.PassesGen Cirbo.Generated.PipelineGen Cirbo.Proofs.PassesGen Cirbo.Proofs.PipelineGen.
Require Import Cirbo.Generated.TransformerGen Cirbo.Proofs.TransformerGen.

(* ================= A. pipeline algebra ================= *)
(* dropping an idempotent pass that equals its predecessor never changes the result: applying a list
   of transformers = applying the leaves of its linearisation one after another *)
Theorem C18_apply_is_sequencing : forall c ts, outs_ok c ->
  apply_transformers c ts = apply_linear (linearize ts) c.
Proof. exact apply_transformers_linear. Qed.

(* the same over an abstract leaf semantics: if every leaf establishes an invariant P and every
   idempotent-flagged leaf is idempotent on P, reduction does not change the fold *)
Theorem C18_reduce_generic : forall (sem : transformer -> circuit -> res circuit) (P : circuit -> Prop),
  (forall t c c1, sem t c = Ok c1 -> P c1) ->
  (forall t c c1, is_leaf_idempotent t = true -> P c -> sem t c = Ok c1 -> sem t c1 = Ok c1) ->
  forall ts c, P c ->
    foldM (fun c t => sem t c) (reduce_from None ts) c = foldM (fun c t => sem t c) ts c.
Proof. exact reduce_run. Qed.

Theorem C18_sequencing_append : forall a b c,
  apply_linear (a ++ b) c = (do c1 <- apply_linear a c; apply_linear b c1).
Proof. exact apply_linear_app. Qed.

(* nested compositions flatten, linearisation distributes over lists *)
Theorem C18_linearize_flattens : forall ts rest,
  linearize [TComp ts] = linearize ts /\ linearize (TComp ts :: rest) = linearize (ts ++ rest).
Proof. intros ts rest. split; [exact (linearize_comp ts)|exact (linearize_comp_cons ts rest)]. Qed.

Theorem C18_linearize_app : forall a b, linearize (a ++ b) = linearize a ++ linearize b.
Proof. exact linearize_app. Qed.

Theorem C18_composition_is_its_list : forall c ts,
  apply_transformers c [TComp ts] = apply_transformers c ts.
Proof. exact apply_transformers_comp. Qed.

(* a list of passes = its elements one after another (each with its implied post passes) *)
Theorem C18_list_is_sequencing : forall c t ts, outs_ok c ->
  apply_transformers c (t :: ts) = (do c1 <- transform t c; apply_transformers c1 ts).
Proof. exact apply_transformers_cons. Qed.

Theorem C18_append_is_sequencing : forall c a b, outs_ok c ->
  apply_transformers c (a ++ b) = (do c1 <- apply_transformers c a; apply_transformers c1 b).
Proof. exact apply_transformers_app. Qed.

(* the pipe operator *)
Theorem C18_pipe_is_sequencing : forall c a b, outs_ok c ->
  transform (pipe a b) c = (do c1 <- transform a c; transform b c1).
Proof. exact apply_transformers_pipe. Qed.

(* cleanup *)
Theorem C18_cleanup_is_sequencing : forall c heavy, outs_ok c ->
  cleanup c heavy =
  (do c1 <- remove_redundant_gates false c;
   do c2 <- merge_unary_operators c1;
   do c3 <- remove_redundant_gates false c2;
   do c4 <- merge_duplicate_gates c3;
   do c5 <- remove_redundant_gates false c4;
   if heavy then do c6 <- merge_equivalent_gates c5; remove_redundant_gates false c6 else Ok c5).
Proof. exact cleanup_sequence. Qed.

Theorem C18_cleanup_is_transforms : forall c heavy, outs_ok c ->
  cleanup c heavy =
  (do c1 <- transform (TRR false) c;
   do c2 <- transform TMU c1;
   do c3 <- transform TMD c2;
   if heavy then transform TME c3 else Ok c3).
Proof. exact cleanup_transforms. Qed.

(* the hypothesis outs_ok (implied by WF) is preserved by every pipeline ... *)
Theorem C18_outs_ok_of_WF : forall c, WF c -> outs_ok c.
Proof. exact wf_outs. Qed.

Theorem C18_pipeline_keeps_outs_ok : forall c ts c', outs_ok c -> apply_transformers c ts = Ok c' -> outs_ok c'.
Proof. exact apply_transformers_outs_ok. Qed.

(* ... and cannot be dropped: on the ill-formed state {inputs a b, output b, no gates} the reduced
   pipeline [RR; RR] (RR applied once) and RR applied twice differ in the order of the gate map *)
Example C18_sequencing_needs_outs_ok :
  apply_transformers c18_bad [TRR false; TRR false] <> apply_linear (linearize [TRR false; TRR false]) c18_bad.
Proof. exact c18_bad_differs. Qed.

(* ================= B. RemoveRedundantGates ================= *)
(* B.1 exactly the reachable gates, unchanged, plus (unless removal is allowed) the other inputs *)
Theorem C18_rr_effect : forall allow c c', WF c -> remove_redundant_gates allow c = Ok c' ->
  NoDup (dkeys (gates c')) /\
  (forall l g, dget (gates c') l = Some g <->
     (reachable c l /\ dget (gates c) l = Some g) \/
     (allow = false /\ ~ reachable c l /\ In l (inputs c) /\ g = mkGate INPUT [])) /\
  outputs c' = outputs c /\
  inputs c' = filter (fun i => has_gate c' i) (inputs c) /\
  (allow = false -> inputs c' = inputs c).
Proof. exact rr_effect. Qed.

(* B.2 applying it twice equals applying it once, as complete states (gate-map order, users index,
   inputs, outputs, blocks) *)
Theorem C18_rr_idempotent : forall allow c c', outs_ok c ->
  remove_redundant_gates allow c = Ok c' -> remove_redundant_gates allow c' = Ok c'.
Proof. exact rr_idempotent. Qed.

(* B.3 it never fails on a well-formed circuit *)
Theorem C18_rr_total : forall allow c, WF c -> exists c', remove_redundant_gates allow c = Ok c'.
Proof. exact rr_total. Qed.

(* non-vacuity: c18_ex = inputs a b d; g = AND(a,b); g2 = AND(b,a); n1 = NOT(g); n2 = NOT(n1);
   h = OR(n2,g2) (output); k = NOT(a) (dead); input d unused *)
Example C18_example_wf : WF c18_ex.
Proof. exact c18_ex_wf. Qed.

Example C18_example_rr :
  option_map (fun c => dkeys (gates c)) (res_to_option (remove_redundant_gates false c18_ex))
    = Some ["a"; "b"; "g2"; "g"; "n1"; "n2"; "h"; "d"] /\
  option_map (fun c => dkeys (gates c)) (res_to_option (remove_redundant_gates true c18_ex))
    = Some ["a"; "b"; "g2"; "g"; "n1"; "n2"; "h"].
Proof. exact c18_ex_rr. Qed.

(* ================= C. MergeDuplicateGates (with its implied RemoveRedundantGates) ================= *)
(* no two distinct non-INPUT gates have the same type and the same operands (up to permutation of the
   operands for symmetric types); no hypothesis on c *)
Theorem C18_md_effect : forall c c', transform TMD c = Ok c' ->
  forall l1 l2 g1 g2, dget (gates c') l1 = Some g1 -> dget (gates c') l2 = Some g2 ->
    gtyp g1 <> INPUT -> gtyp g2 <> INPUT ->
    sig_eqb (gtyp g1) (gops g1) (gtyp g2) (gops g2) = true -> l1 = l2.
Proof. exact md_effect. Qed.

(* reading of sig_eqb *)
Theorem C18_sig_eqb_spec : forall t1 o1 t2 o2, sig_eqb t1 o1 t2 o2 = true <->
  t1 = t2 /\ if is_symmetric t1 then Permutation.Permutation o1 o2 else o1 = o2.
Proof. exact sig_eqb_equiv. Qed.

(* the same already holds for the output of the pass itself on the gates reachable from its outputs *)
Theorem C18_md_effect_before_rr : forall c m, merge_duplicate_gates c = Ok m ->
  forall l1 l2 g1 g2, reachable m l1 -> reachable m l2 ->
    dget (gates m) l1 = Some g1 -> dget (gates m) l2 = Some g2 ->
    gtyp g1 <> INPUT -> gtyp g2 <> INPUT ->
    sig_eqb (gtyp g1) (gops g1) (gtyp g2) (gops g2) = true -> l1 = l2.
Proof. intros c m H. exact (proj2 (md_effect_reachable c m H)). Qed.

Example C18_example_md :
  option_map (fun c => gates c) (res_to_option (transform TMD c18_ex)) =
  Some [("a", mkGate INPUT []); ("b", mkGate INPUT []); ("g2", mkGate AND ["b"; "a"]);
        ("n1", mkGate NOT ["g2"]); ("n2", mkGate NOT ["n1"]); ("h", mkGate OR ["n2"; "g2"]);
        ("d", mkGate INPUT [])].
Proof. exact c18_ex_md. Qed.

(* ================= E. MergeUnaryOperators (with its implied RemoveRedundantGates) ================= *)
(* on a circuit whose unary gates are all NOT: no NOT gate has a NOT gate as operand *)
Theorem C18_mu_no_double_negation : forall c c', WF c -> arity_ok c -> unary_all_not c ->
  transform TMU c = Ok c' ->
  forall l g o go, dget (gates c') l = Some g -> gtyp g = NOT -> In o (gops g) ->
                   dget (gates c') o = Some go -> gtyp go <> NOT.
Proof. exact mu_effect_not. Qed.

(* on a circuit without NOT / LNOT / RNOT gates (in particular: one whose unary gates are all IFF):
   no IFF / LIFF / RIFF gate is an operand or an output *)
Theorem C18_mu_no_buffer_reference : forall c c', WF c -> no_not_like c ->
  transform TMU c = Ok c' ->
  forall o go, (In o (outputs c') \/ exists l g, dget (gates c') l = Some g /\ In o (gops g)) ->
               dget (gates c') o = Some go -> is_iff_like (gtyp go) = false.
Proof. exact mu_effect_iff. Qed.

(* the arity hypothesis of the first statement cannot be dropped: n = NOT(a, k) with two operands and
   k = NOT(b) keeps k as an operand of the NOT gate n *)
Example C18_mu_needs_arity :
  WF c18_not2 /\ unary_all_not c18_not2 /\
  option_map (fun c => gates c) (res_to_option (transform TMU c18_not2)) =
  Some [("b", mkGate INPUT []); ("k", mkGate NOT ["b"]); ("a", mkGate INPUT []); ("n", mkGate NOT ["a"; "k"])].
Proof. exact c18_not2_facts. Qed.

Example C18_example_mu :
  WF c18_ex /\ arity_ok c18_ex /\ unary_all_not c18_ex /\
  option_map (fun c => gates c) (res_to_option (transform TMU c18_ex)) =
  Some [("a", mkGate INPUT []); ("b", mkGate INPUT []); ("g2", mkGate AND ["b"; "a"]);
        ("g", mkGate AND ["a"; "b"]); ("h", mkGate OR ["g"; "g2"]); ("d", mkGate INPUT [])].
Proof. exact c18_ex_mu. Qed.

Example C18_example_mu_iff :
  WF c18_iff /\ no_not_like c18_iff /\
  option_map (fun c => (outputs c, gates c)) (res_to_option (transform TMU c18_iff)) =
  Some (["a"; "g"], [("b", mkGate INPUT []); ("a", mkGate INPUT []); ("g", mkGate AND ["a"; "b"])]).
Proof. exact c18_iff_facts. Qed.

(* ================= D. MergeEquivalentGates (with its implied RemoveRedundantGates) ================= *)
(* no two distinct non-INPUT gates of the result have the same truth table, where the tables are those
   computed by get_gates_truth_table ON THE RESULT *)
Theorem C18_me_effect : forall c c' gtt', WF c ->
  transform TME c = Ok c' -> get_gates_truth_table c' = Ok gtt' ->
  forall l1 l2 g1 g2, dget (gates c') l1 = Some g1 -> dget (gates c') l2 = Some g2 ->
    gtyp g1 <> INPUT -> gtyp g2 <> INPUT -> dget gtt' l1 = dget gtt' l2 -> l1 = l2.
Proof. exact me_effect. Qed.

(* reading of get_gates_truth_table on a well-formed circuit: every gate has a table, with one entry per
   Boolean input vector in the order of all_bool_vectors, and the entry is the semantic value (Sem.Eval)
   of the gate under the assignment binding the inputs to the vector *)
Theorem C18_gates_truth_table_spec : forall c gtt, WF c -> get_gates_truth_table c = Ok gtt ->
  NoDup (dkeys gtt) /\
  forall l, has_gate c l = true ->
    exists vs, dget gtt l = Some vs /\
      Forall2 (fun x v => exists a, zip_inputs (inputs c) (map inj x) [] = Ok a /\ Eval c a l v)
              (all_bool_vectors (length (inputs c))) vs.
Proof. exact gtt_spec. Qed.

Example C18_example_me :
  WF c18_eq /\
  option_map (fun c => gates c) (res_to_option (transform TME c18_eq)) =
  Some [("b", mkGate INPUT []); ("nb", mkGate NOT ["b"]); ("a", mkGate INPUT []); ("na", mkGate NOT ["a"]);
        ("g2", mkGate NOR ["na"; "nb"]); ("o2", mkGate XOR ["g2"; "b"]); ("o1", mkGate XOR ["g2"; "a"])] /\
  (do c' <- transform TME c18_eq; get_gates_truth_table c') =
  Ok [("a", [F; F; T; T]); ("b", [F; T; F; T]); ("na", [T; T; F; F]); ("nb", [T; F; T; F]);
      ("g2", [F; F; F; T]); ("o1", [F; F; T; F]); ("o2", [F; T; F; F])].
Proof. exact c18_eq_facts. Qed.

(* ================= F. the model is the code ================= *)
(* the pass algorithms are regenerated from minimization/simplification/*.py on every run (translator T15,
   Generated/PassesGen.v) and equal the model the theorems above are about, for every circuit: stated once as
   C03_passes_regenerated (Properties/C03.v, same model, same lemma Proofs/PassesGen.passes_regenerated) and
   re-exported here for the four `_transform`s and the pipeline part *)
Theorem C18_passes_regenerated :
  (forall allow c, gen_RemoveRedundantGates_transform allow c = remove_redundant_gates allow c) /\
  (forall c, gen_MergeUnaryOperators_transform c = merge_unary_operators c) /\
  (forall c, gen_MergeDuplicateGates_transform c = merge_duplicate_gates c) /\
  (forall c, gen_MergeEquivalentGates_transform c = merge_equivalent_gates c) /\
  (* pipeline machinery (Generated/PipelineGen.v): the __idempotent__ flags, the pre / post transformer lists of the
     constructors, the reduction loop of linearize_reduce_transformers and cleanup are regenerated as well *)
  (forall t, gen_is_idempotent t = is_leaf_idempotent t) /\
  (forall t, (forall ts, t <> TComp ts) ->
     as_distinct t = linearize (gen_pre_transformers t) ++ [t] ++ linearize (gen_post_transformers t)) /\
  (forall ts, gen_linearize_reduce_transformers ts = Ok (linearize_reduce ts)) /\
  (forall c heavy, gen_cleanup c heavy = cleanup c heavy).
Proof.
  exact (conj (proj1 passes_regenerated)
        (conj (proj1 (proj2 passes_regenerated))
        (conj (proj1 (proj2 (proj2 passes_regenerated)))
        (conj (proj1 (proj2 (proj2 (proj2 (proj2 (proj2 (proj2 passes_regenerated)))))))
              pipeline_regenerated)))).
Qed.

(* the dispatching methods of core/circuit/transformer.py - linearize_transformers, as_distinct (both classes),
   apply_transformers, transform, TransformerComposition._transform, the three __eq__ (Transformer,
   RemoveRedundantGates, TransformerComposition), __or__ / __ror__ - are regenerated as well (translator T24,
   Generated/TransformerGen.v): dynamic dispatch on `self` is a match on the constructor with one arm per class body,
   generators are run to completion, the mutual recursion through the class hierarchy is a mutual Fixpoint on explicit
   fuel (`gen_f` = `gen_f_fuel` at a default fuel; the results are proved independent of the fuel above a bound),
   functools.reduce is a monadic fold, `return NotImplemented` is None.  They equal the hand model for EVERY
   transformer term and circuit.  The NotImplemented protocol is modelled between transformer objects only
   (`other` ranges over Passes.transformer, not over arbitrary Python objects). *)
Theorem C18_pipeline_machinery_regenerated :
  (* as_distinct (Transformer's and TransformerComposition's, imply_deps True / False) and linearize_transformers,
     with the default fuel and with every fuel above a bound *)
  (forall t, gen_as_distinct t true = Ok (as_distinct t)) /\
  (forall t, gen_as_distinct t false = Ok (match t with TComp _ => as_distinct t | _ => [t] end)) /\
  (forall ts, gen_linearize_transformers ts = Ok (linearize ts)) /\
  (forall t, exists n, forall f, n <= f -> gen_as_distinct_fuel f t true = Ok (as_distinct t)) /\
  (forall ts, exists n, forall f, n <= f -> gen_linearize_transformers_fuel f ts = Ok (linearize ts)) /\
  (* apply_transformers(circuit, list) / (circuit, composition) / (circuit, a transformer that is not a composition:
     TypeError, not iterable); every fuel >= 2 *)
  (forall c ts, gen_apply_transformers c (inl ts) = apply_transformers c ts) /\
  (forall f c ts, gen_apply_transformers_fuel (S (S f)) c (inl ts) = apply_transformers c ts) /\
  (forall f c ts, gen_apply_transformers_fuel (S (S f)) c (inr (TComp ts)) = apply_transformers c [TComp ts]) /\
  (forall f c t, (forall l, t <> TComp l) -> gen_apply_transformers_fuel (S f) c (inr t) = Err PyTypeError) /\
  (* x._transform(c): the four passes (T15) for a leaf, TransformerComposition._transform for a composition;
     x.transform(c) *)
  (forall f t c, (forall l, t <> TComp l) -> gen__transform_fuel (S f) t c = transform_leaf t c) /\
  (forall f c ts, gen__transform_fuel (S (S (S f))) (TComp ts) c = apply_transformers c [TComp ts]) /\
  (forall t c, gen_transform t c = transform t c) /\
  (* `a == b`: Transformer.__eq__, RemoveRedundantGates.__eq__, TransformerComposition.__eq__ and the NotImplemented
     protocol (the reflected call always answers: the identity fallback is never reached) *)
  (forall a b, gen_py_eq a b = transformer_eqb a b) /\
  (forall a b, gen___eq__ a b = None -> gen___eq__ b a <> None) /\
  (* `a | b`: __or__ answers between transformers; __ror__ (never reached between transformers) is its mirror image *)
  (forall a b, gen___or__ a b = Ok (Some (pipe a b))) /\
  (forall a b, gen___ror__ b a = Ok (Some (TComp (match a with TComp l => l | _ => [a] end ++ as_distinct b)))) /\
  (forall a b, gen_py_or a b = Ok (Some (pipe a b))).
Proof. exact transformer_regenerated. Qed.
