(* connect_circuit and its wrappers, replace_subcircuit, __copy__, Block.into_circuit,
   into_bench (converters.py). *)
Require Import Cirbo.Model.Base Cirbo.Model.Gate Cirbo.Model.Circuit Cirbo.Model.Traverse.

Definition map_get (m : dict label) (k : label) : res label :=
  match dget m k with Some v => Ok v | None => Err PyKeyError end.
Definition map_list (m : dict label) (ls : list label) : res (list label) := mapM (map_get m) ls.

(* mapping[old_name] = this_connectors[i]  (IndexError impossible: lengths checked before) *)
Fixpoint build_mapping (oc tc : list label) (m : dict label) : dict label :=
  match oc, tc with
  | o :: oc', t :: tc' => build_mapping oc' tc' (dset m o t)
  | _, _ => m
  end.

Definition connect_circuit (c other : circuit) (tc oc : list label)
           (right_connect : bool) (name : label) (add_prefix : bool) : res circuit :=
  do _ <- check_block_doesnt_exist name c;
  do _ <- check_gates_exist tc c;
  do _ <- check_gates_exist oc other;
  do _ <- (if right_connect then
             if nodupb tc then if nodupb oc then Ok tt else Err CreateBlockError
             else Err CreateBlockError
           else if nodupb oc then Ok tt else Err CreateBlockError);
  do _ <- (if Nat.eqb (length tc) (length oc) then Ok tt else Err CreateBlockError);
  do _ <- (if right_connect then
             if forallb (is_input_gate c) tc then Ok tt else Err CreateBlockError
           else if forallb (is_input_gate other) oc then Ok tt else Err CreateBlockError);
  let copy_inputs := inputs c in
  let prefix := if negb (leqb name "") && add_prefix then (name ++ "@")%string else "" in
  let mapping := build_mapping oc tc [] in
  do order <- top_sort true other;
  do st <- foldM (fun (st : circuit * dict label * list label) l =>
             let '(c, o2n, blk) := st in
             do g <- get_gate other l;
             if negb (dmem mapping l) then
               let nl := (prefix ++ l)%string in
               let o2n' := dset o2n l nl in
               do ops <- map_list o2n' (gops g);
               do c' <- emplace_gate c nl (gtyp g) ops;
               Ok (c', o2n', if gtype_beq (gtyp g) INPUT then blk else blk ++ [nl])
             else if right_connect then
               do nl <- map_get o2n l;
               do ops <- map_list o2n (gops g);
               do old <- match dget (gates c) nl with Some x => Ok x | None => Err PyKeyError end;
               let c1 := remove_users c (gops old) nl in
               let c2 := add_users c1 ops nl in
               Ok (set_gates c2 (dset (gates c2) nl (mkGate (gtyp g) ops)), o2n,
                   if gtype_beq (gtyp g) INPUT then blk else blk ++ [nl])
             else Ok st) order (c, mapping, []);
  let '(c1, o2n, blk) := st in
  do new_outs <- map_list o2n (filter (fun o => negb (memb o oc)) (outputs other));
  do c2 <- set_outputs c1 (filter (fun o => negb (memb o tc)) (outputs c1) ++ new_outs);
  do keep_ins <- mapM (fun i => match dget (gates c2) i with
                                | Some g => Ok (i, gtype_beq (gtyp g) INPUT)
                                | None => Err PyKeyError end) copy_inputs;
  do new_ins <- map_list o2n (filter (fun i => negb (memb i oc)) (inputs other));
  do c3 <- set_inputs c2 (map fst (filter snd keep_ins) ++ new_ins);
  do c4 <- foldM (fun c (kb : label * block) =>
             let nb := (prefix ++ fst kb)%string in
             do _ <- check_block_doesnt_exist nb c;
             do bi <- map_list o2n (binputs (snd kb));
             do bg <- map_list o2n (bgates (snd kb));
             do bo <- map_list o2n (boutputs (snd kb));
             Ok (set_blocks c (dset (blocks c) nb (mkBlock bi bg bo)))) (blocks other) c3;
  if negb (leqb name "") then
    do bi <- map_list o2n (inputs other);
    do bo <- map_list o2n (outputs other);
    (* gates_for_block is a Python set: canonical order = gate-map order, no duplicates *)
    Ok (set_blocks c4 (dset (blocks c4) name (mkBlock bi (canonical_block_gates c4 blk) bo)))
  else Ok c4.

Definition connect_left c other tc name ap := connect_circuit c other tc (inputs other) false name ap.
Definition connect_right c other oc name ap := connect_circuit c other (inputs c) oc true name ap.
Definition connect_inputs c other name ap := connect_circuit c other (inputs c) (inputs other) true name ap.
Definition extend_circuit c other (tc oc : option (list label)) (right : bool) name ap :=
  let tc' := match tc with Some x => x | None => if right then inputs c else outputs c end in
  let oc' := match oc with Some x => x | None => if right then outputs other else inputs other end in
  connect_circuit c other tc' oc' right name ap.
Definition add_circuit c other name ap := connect_circuit c other [] [] false name ap.

(* ---- __copy__ ---- *)
Definition copy_circuit (c : circuit) : res circuit :=
  do order <- top_sort true c;
  do c1 <- foldM (fun n l => do g <- get_gate c l; emplace_gate n l (gtyp g) (gops g)) order empty_circuit;
  do c2 <- set_inputs c1 (inputs c);
  do c3 <- set_outputs c2 (outputs c);
  foldM (fun n (kb : label * block) =>
           make_block n (fst kb) (bgates (snd kb)) (boutputs (snd kb)) (Some (binputs (snd kb))))
        (blocks c) c3.

(* ---- Block.into_circuit ---- *)
Definition block_into_circuit (c : circuit) (b : block) : res circuit :=
  let n0 := fold_left (fun n i => if has_gate n i then n else emplace_gate_raw n i INPUT [])
                      (binputs b) empty_circuit in
  do n1 <- foldM (fun n l => if has_gate n l then Ok n else
                            do g <- get_gate c l; Ok (emplace_gate_raw n l (gtyp g) (gops g))) (bgates b) n0;
  do n2 <- set_outputs n1 (boutputs b);
  do _ <- foldM (fun (_ : unit) (kg : label * gate) => check_gates_exist (gops (snd kg)) n2) (gates n2) tt;
  Ok n2.

(* ---- replace_subcircuit ----
   inputs_mapping / outputs_mapping are Python dicts: association lists with unique keys
   (the harness passes them as such).  fresh: the uuid4().hex used for the temporary block. *)
Definition replace_subcircuit (c sub : circuit) (imap omap : dict label) (fresh : string) : res circuit :=
  do _ <- (if nodupb (dkeys imap ++ dkeys omap) then Ok tt else Err ReplaceSubcircuitError);
  do _ <- check_gates_exist (dkeys imap) c;
  do _ <- check_gates_exist (dkeys omap) c;
  do _ <- check_gates_exist (dvals omap) sub;
  do _ <- foldM (fun (_ : unit) i => do g <- get_gate sub i;
                   if gtype_beq (gtyp g) INPUT then Ok tt else Err ReplaceSubcircuitError) (dvals imap) tt;
  do _ <- (if forallb (fun i => memb i (dvals imap)) (inputs sub) then Ok tt else Err ReplaceSubcircuitError);
  do c1 <- foldM (fun c (kv : label * label) =>
             if leqb (fst kv) (snd kv) then Ok c else rename_gate c (fst kv) (snd kv)) imap c;
  do c2 <- foldM (fun c (kv : label * label) =>
             if leqb (fst kv) (snd kv) then Ok c else rename_gate c (fst kv) (snd kv)) omap c1;
  let bname := ("block_for_deleting" ++ fresh)%string in
  do c3 <- make_block_from_slice c2 bname (dvals imap) (dvals omap);
  do blk <- get_block c3 bname;
  do _ <- (if forallb (fun o => negb (memb o (bgates blk)) || memb o (dvals omap)) (outputs c3)
           then Ok tt else Err ReplaceSubcircuitError);
  let copy_outputs := outputs c3 in
  (* defaultdict(list): key created on first append; iteration order of keys = first append *)
  do saved <- foldM (fun (acc : dict (list label)) o =>
                do us <- get_gate_users c3 o;
                Ok (fold_left (fun acc u =>
                      if memb u (bgates blk) then acc else
                      match dget acc o with
                      | Some l => dset acc o (l ++ [u])
                      | None => dset acc o [u]
                      end) us acc)) (dvals omap) [];
  do _ <- check_block_has_no_users blk c3 (dvals omap);
  do c4 <- remove_block_raw c3 bname;
  do order <- top_sort true sub;
  do c5 <- foldM (fun c l =>
             if memb l (dvals imap) then Ok c else
             do g <- get_gate sub l; add_gate c l (gtyp g) (gops g)) order c4;
  let c6 := set_outputs_raw c5 copy_outputs in
  let c7 := fold_left (fun c (kv : label * list label) =>
              match dget (users c) (fst kv) with
              | None => set_users c (dset (users c) (fst kv) (snd kv))
              | Some l => set_users c (dset (users c) (fst kv) (l ++ snd kv))
              end) saved c6 in
  do _ <- check_circuit_has_no_cycles_from c7 (Some (dkeys (gates c7)));
  Ok c7.

(* ---- converters.py : into_bench ---- *)
Definition add_new_gate_to_blocks (c : circuit) (old new : label) : circuit :=
  set_blocks c (map (fun kb : label * block =>
    if memb old (bgates (snd kb))
    then (fst kb, mkBlock (binputs (snd kb)) (bgates (snd kb) ++ [new]) (boutputs (snd kb)))
    else kb) (blocks c)).

Definition op_at (g : gate) (i : nat) : res label :=
  match nth_error (gops g) i with Some l => Ok l | None => Err PyIndexError end.

(* LT/LEQ/GT/GEQ: helper NOT on operand `neg`, new type t, operands order given by left *)
Definition convert_cmp (c : circuit) (l : label) (g : gate) (pfx : string) (fresh : string)
           (neg : nat) (t : gtype) : res circuit :=
  let nl := (pfx ++ l ++ fresh)%string in
  do o0 <- op_at g 0;
  do o1 <- op_at g 1;
  let on := if Nat.eqb neg 0 then o0 else o1 in
  do c1 <- emplace_gate c nl NOT [on];
  let c2 := remove_user c1 on l in
  let c3 := add_user c2 nl l in
  let c4 := set_gates c3 (dset (gates c3) l
              (mkGate t (if Nat.eqb neg 0 then [nl; o1] else [o0; nl]))) in
  Ok (add_new_gate_to_blocks c4 l nl).

Definition convert_proj (c : circuit) (l : label) (g : gate) (keep : nat) (t : gtype) : res circuit :=
  do o0 <- op_at g 0;
  do o1 <- op_at g 1;
  let drop := if Nat.eqb keep 0 then o1 else o0 in
  let kept := if Nat.eqb keep 0 then o0 else o1 in
  let c1 := remove_user c drop l in
  Ok (set_gates c1 (dset (gates c1) l (mkGate t [kept]))).

Definition convert_const (c : circuit) (l : label) (g : gate) (pfx : string) (fresh : string) (t : gtype)
  : res circuit :=
  do first <- match inputs c with i :: _ => Ok i | [] => Err GateDoesntExistError end;
  let nl := (pfx ++ l ++ fresh)%string in
  do c1 <- emplace_gate c nl NOT [first];
  let c1 := remove_users c1 (gops g) l in
  let c2 := add_user c1 first l in
  let c3 := add_user c2 nl l in
  let c4 := set_gates c3 (dset (gates c3) l (mkGate t [first; nl])) in
  Ok (add_new_gate_to_blocks c4 l nl).

Definition needs_fresh (t : gtype) : bool :=
  match t with LT | LEQ | GT | GEQ | ALWAYS_TRUE | ALWAYS_FALSE => true | _ => false end.

(* convert_gate(_gate, circuit): _gate is the SNAPSHOT gate taken before the loop *)
Definition convert_gate (c : circuit) (l : label) (g : gate) (fresh : string) : res circuit :=
  match gtyp g with
  | LT => convert_cmp c l g "new_gate_LT_for_" fresh 0 AND
  | LEQ => convert_cmp c l g "new_gate_LEQ_for_" fresh 0 OR
  | GT => convert_cmp c l g "new_gate_GT_for_" fresh 1 AND
  | GEQ => convert_cmp c l g "new_gate_GEQ_for_" fresh 1 OR
  | LIFF => convert_proj c l g 0 IFF
  | RIFF => convert_proj c l g 1 IFF
  | LNOT => convert_proj c l g 0 NOT
  | RNOT => convert_proj c l g 1 NOT
  | ALWAYS_TRUE => convert_const c l g "new_gate_ALWAYS_TRUE_for_" fresh OR
  | ALWAYS_FALSE => convert_const c l g "new_gate_ALWAYS_FALSE_for_" fresh AND
  | _ => Ok c
  end.

(* into_bench: fresh is the list of uuid4().hex values, consumed by the gates that need one *)
Definition into_bench (c : circuit) (fresh : list string) : res circuit :=
  do r <- foldM (fun (st : circuit * list string) (kg : label * gate) =>
            let '(c, fr) := st in
            if needs_fresh (gtyp (snd kg)) then
              match fr with
              | f :: fr' => do c' <- convert_gate c (fst kg) (snd kg) f; Ok (c', fr')
              | [] => Err OutOfFuel
              end
            else do c' <- convert_gate c (fst kg) (snd kg) ""; Ok (c', fr)) (gates c) (c, fresh);
  Ok (fst r).
