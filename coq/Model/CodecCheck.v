(* Executable well-formedness / format checks (boolean reflections of the predicates the
   codec theorems use); evaluated by vm_compute on concrete circuits, in particular on the
   circuits decoded from the shipped databases (C17). *)
Require Import Cirbo.Model.Base Cirbo.Model.Gate Cirbo.Model.Circuit.
Require Import Cirbo.Generated.CodecTables.

Definition is_input_type (g : gate) : bool := gtype_beq (gtyp g) INPUT.

(* gate-map keys distinct; the input list is exactly the INPUT gates, without repetition *)
Definition codec_wfb (c : circuit) : bool :=
  nodupb (dkeys (gates c)) && nodupb (inputs c)
  && forallb (fun i => is_input_gate c i) (inputs c)
  && forallb (fun kg : label * gate => negb (is_input_type (snd kg)) || memb (fst kg) (inputs c)) (gates c).

Definition ops_existb (c : circuit) : bool :=
  forallb (fun kg : label * gate => is_input_type (snd kg) || forallb (has_gate c) (gops (snd kg))) (gates c).

Definition outputs_existb (c : circuit) : bool := forallb (has_gate c) (outputs c).

(* only the gate types and arities the binary format defines *)
Definition format_okb (c : circuit) : bool :=
  forallb (fun kg : label * gate =>
             is_input_type (snd kg) ||
             (match gate_type_to_int (gtyp (snd kg)) with Some _ => true | None => false end
              && (length (gops (snd kg)) =? get_arity (gtyp (snd kg)))%nat)) (gates c).

(* position of a label in a list (the length when absent) *)
Fixpoint index_of (l : label) (order : list label) : nat :=
  match order with
  | [] => O
  | x :: r => if leqb l x then O else S (index_of l r)
  end.

(* `order` is a dependency order: every operand of a non-input gate comes strictly earlier *)
Definition acyclicb (order : list label) (c : circuit) : bool :=
  forallb (fun kg : label * gate =>
             is_input_type (snd kg) ||
             forallb (fun o => (index_of o order <? index_of (fst kg) order)%nat) (gops (snd kg))) (gates c).

(* the users index is exactly the inverse operand relation, as multisets *)
Definition ops_of (c : circuit) (u : label) : list label :=
  match dget (gates c) u with Some g => gops g | None => [] end.
Definition users_of (c : circuit) (l : label) : list label :=
  match dget (users c) l with Some us => us | None => [] end.

Definition users_exactb (c : circuit) : bool :=
  let keys := dkeys (gates c) in
  nodupb (dkeys (users c))
  && forallb (fun lu : label * list label => memb (fst lu) keys && forallb (fun u => memb u keys) (snd lu)) (users c)
  && forallb (fun l => forallb (fun u => (count u (users_of c l) =? count l (ops_of c u))%nat) keys) keys.

(* gates of the circuit are drawn from a basis (INPUT always allowed) *)
Definition in_basisb (basis : list gtype) (c : circuit) : bool :=
  forallb (fun kg : label * gate => is_input_type (snd kg) || existsb (gtype_beq (gtyp (snd kg))) basis) (gates c).
