(* The Function / FunctionModel protocol (cirbo/core/boolean_function.py) and its three
   implementations: Circuit (core/circuit/circuit.py), TruthTable (core/truth_table.py),
   PyFunction (core/python_function.py), with the helpers of core/utils.py and
   core/circuit/utils.py.

   Part 1: enumeration helpers (canonical index, itertools.product / combinations,
           input_iterator_with_fixed_sum, zip( * rows)).
   Part 2: the mathematical SPECIFICATION of every query, over f : list bool -> list bool
           with arities n m.
   Part 3: executable versions mirroring the code of the three classes (results are
           `res`: Python exceptions are error kinds).
   Part 4: the *Model classes (`define`) and the integer wrappers.
   Part 5: queries as data (used by the correspondence check).

   The model is of the code repaired by fixes/D4.patch (PyFunction.is_monotone updates
   old_value), fixes/D16.patch (TruthTableModel.define keeps defined entries) and
   fixes/D21.patch (zero-input functions: input_to_canonical_index([]) = 0 and
   canonical_index_to_input(i, 0) = []). *)
From Coq Require Import Permutation Sorted.
Require Import Cirbo.Model.Base Cirbo.Model.Gate Cirbo.Model.Circuit Cirbo.Model.Eval.

Notation bvec := (list bool) (only parsing).
Definition bvec_eqb : bvec -> bvec -> bool := all_eqb Bool.eqb.

(* ================================================================== *)
(* Part 1: enumeration helpers                                         *)
(* ================================================================== *)

(* input_to_canonical_index: int('0' + ''.join(str(int(v)) for v in inputs), 2)
   big-endian: the first element is the most significant bit *)
Definition index_of (x : bvec) : nat :=
  fold_left (fun acc (b : bool) => 2 * acc + (if b then 1 else 0)) x 0.

(* bin(index)[2:] : most significant bit first, "0" for 0 *)
Fixpoint bits_of_pos (p : positive) : bvec :=
  match p with
  | xH => [true]
  | xO q => bits_of_pos q ++ [false]
  | xI q => bits_of_pos q ++ [true]
  end.
Definition bits_of (v : nat) : bvec :=
  match N.of_nat v with N0 => [false] | Npos p => bits_of_pos p end.

(* canonical_index_to_input(index, input_size):
     s = bin(index)[2:]; s = '0' * (input_size - len(s)) + s; bits(s)[len(s) - input_size:] *)
Definition canonical_index_to_input (index size : nat) : bvec :=
  let s := bits_of index in
  let s := repeat false (size - length s) ++ s in
  skipn (length s - size) s.

(* get_bit_value(value, bit_idx, bit_size): `1 << negative` raises ValueError *)
Definition get_bit_value (value bit_idx bit_size : nat) : res bool :=
  if (bit_size <? bit_idx + 1)%nat then Err PyValueError
  else Ok (Nat.testbit value (bit_size - bit_idx - 1)).

(* itertools.product((False, True), repeat=n) is Eval.all_bool_vectors n.
   itertools.combinations(l, k): k-subsets in lexicographic order of positions *)
Fixpoint combinations (l : list nat) (k : nat) {struct l} : list (list nat) :=
  match k, l with
  | O, _ => [[]]
  | S _, [] => []
  | S k', x :: xs => map (cons x) (combinations xs k') ++ combinations xs k
  end.

Definition nat_mem (i : nat) (l : list nat) : bool := existsb (Nat.eqb i) l.

(* the list yielded for one combination: _inp[idx] = (idx in indexes) ^ negations[idx] *)
Definition fixed_sum_vec (n : nat) (negs : bvec) (idxs : list nat) : bvec :=
  map (fun i => xorb (nat_mem i idxs) (nth i negs false)) (seq 0 n).

(* input_iterator_with_fixed_sum(input_size, number_of_true, negations=...):
   a too short `negations` raises IndexError when the first element is produced *)
Definition fixed_sum (n k : nat) (negs : option bvec) : res (list bvec) :=
  let ng := match negs with Some g => g | None => repeat false n end in
  match combinations (seq 0 n) k with
  | [] => Ok []
  | cs => if (length ng <? n)%nat then Err PyIndexError else Ok (map (fixed_sum_vec n ng) cs)
  end.

(* zip( * rows): as many tuples as the shortest row has elements; [] for no rows *)
Fixpoint heads {A} (rows : list (list A)) : option (list A * list (list A)) :=
  match rows with
  | [] => Some ([], [])
  | r :: rs =>
    match r, heads rs with
    | x :: r', Some (hs, ts) => Some (x :: hs, r' :: ts)
    | _, _ => None
    end
  end.
Fixpoint transpose_fuel {A} (fuel : nat) (rows : list (list A)) : list (list A) :=
  match fuel with
  | O => []
  | S fuel' =>
    match rows with
    | [] => []
    | _ => match heads rows with
           | None => []
           | Some (hs, ts) => hs :: transpose_fuel fuel' ts
           end
    end
  end.
Definition transpose {A} (rows : list (list A)) : list (list A) :=
  transpose_fuel (length (hd [] rows)) rows.

(* list.insert(i, a): at the end when i >= len *)
Fixpoint insert_at {A} (i : nat) (a : A) (l : list A) : list A :=
  match i, l with
  | O, _ => a :: l
  | S i', x :: r => x :: insert_at i' a r
  | S _, [] => [a]
  end.

(* x[i] = not x[i] *)
Fixpoint negate_at (i : nat) (l : bvec) : res bvec :=
  match i, l with
  | _, [] => Err PyIndexError
  | O, b :: r => Ok (negb b :: r)
  | S i', b :: r => do r' <- negate_at i' r; Ok (b :: r')
  end.

(* loops with an early `return False` / `return True`; the predicate is only
   evaluated up to the element that decides *)
Fixpoint forallM {X} (p : X -> res bool) (xs : list X) : res bool :=
  match xs with
  | [] => Ok true
  | x :: r => do b <- p x; if b then forallM p r else Ok false
  end.
Fixpoint existsM {X} (p : X -> res bool) (xs : list X) : res bool :=
  match xs with
  | [] => Ok false
  | x :: r => do b <- p x; if b then Ok true else existsM p r
  end.
Fixpoint filterM {X} (p : X -> res bool) (xs : list X) : res (list X) :=
  match xs with
  | [] => Ok []
  | x :: r => do b <- p x; do r' <- filterM p r; Ok (if b then x :: r' else r')
  end.
Fixpoint findM {X} (p : X -> res bool) (xs : list X) : res (option X) :=
  match xs with
  | [] => Ok None
  | x :: r => do b <- p x; if b then Ok (Some x) else findM p r
  end.

(* ================================================================== *)
(* Part 2: specifications                                              *)
(* ================================================================== *)
Section Spec.
  Variable f : bvec -> bvec.
  Variables n m : nat.

  (* value of output j at x *)
  Definition out (j : nat) (x : bvec) : bool := nth j (f x) false.

  Definition arity_ok : Prop := forall x, length x = n -> length (f x) = m.

  Definition constant_at (j : nat) : Prop :=
    forall x y, length x = n -> length y = n -> out j x = out j y.
  Definition constant : Prop := forall j, j < m -> constant_at j.

  (* "monotone" in the documented sense of the protocol: the output does not decrease
     (inverse: does not increase) when the inputs are enumerated in canonical order
     0..0, 0..01, 0..10, ...  This is NOT monotonicity in the Boolean lattice. *)
  Definition ble (inverse : bool) (a b : bool) : Prop :=
    if inverse then (a = false -> b = false) else (a = true -> b = true).
  Definition monotone_at (j : nat) (inverse : bool) : Prop :=
    forall x y, length x = n -> length y = n -> index_of x <= index_of y ->
                ble inverse (out j x) (out j y).
  Definition monotone (inverse : bool) : Prop := forall j, j < m -> monotone_at j inverse.

  (* invariant under every permutation of the inputs *)
  Definition symmetric_at (j : nat) : Prop :=
    forall x y, length x = n -> Permutation x y -> out j x = out j y.
  Definition symmetric : Prop := forall j, j < m -> symmetric_at j.

  (* two inputs that differ only at position i give different values *)
  Definition dependent_on (j i : nat) : Prop :=
    exists x y, length x = n /\ length y = n /\
                (forall k, k <> i -> nth k x false = nth k y false) /\ out j x <> out j y.

  Definition equal_to_input (j i : nat) : Prop :=
    forall x, length x = n -> out j x = nth i x false.
  Definition equal_to_input_negation (j i : nat) : Prop :=
    forall x, length x = n -> out j x = negb (nth i x false).

  (* l is the increasing list of the inputs output j depends on *)
  Definition significant_inputs (j : nat) (l : list nat) : Prop :=
    (forall i, In i l <-> i < n /\ dependent_on j i) /\ StronglySorted lt l.
End Spec.

Definition popcount (x : bvec) : nat := count_occ bool_dec x true.
Definition xor_vec (x g : bvec) : bvec := map (fun p => xorb (fst p) (snd p)) (combine x g).

(* negs makes the selected outputs symmetric: x |-> f (x xor negs) is symmetric there *)
Definition negations_make_symmetric (f : bvec -> bvec) (n : nat) (outs : list nat) (negs : bvec) : Prop :=
  length negs = n /\
  forall j, In j outs -> symmetric_at (fun x => f (xor_vec x negs)) n j.

(* ================================================================== *)
(* Part 3: the three classes                                           *)
(* ================================================================== *)

(* what every class offers to the shared algorithms *)
Record frep : Type := mkRep {
  r_n : nat;                               (* input_size *)
  r_m : nat;                               (* output_size *)
  r_ev : bvec -> res bvec;                 (* evaluate *)
  r_ev_at : bvec -> nat -> res bool        (* evaluate_at *)
}.

(* ---- algorithms that are textually the same in the three classes ---- *)

(* one weight class: value = ev(next(_iter)); for x in _iter: if value != ev(x): return False *)
Definition sym_class {V} (veqb : V -> V -> bool) (ev : bvec -> res V) (vecs : list bvec) : res bool :=
  match vecs with
  | [] => Err PyStopIteration
  | x0 :: rest => do v0 <- ev x0; forallM (fun x => do v <- ev x; Ok (veqb v0 v)) rest
  end.

Definition g_symmetric {V} (veqb : V -> V -> bool) (ev : bvec -> res V) (n : nat) (negs : option bvec)
  : res bool :=
  forallM (fun k => do vecs <- fixed_sum n k negs; sym_class veqb ev vecs) (seq 0 (S n)).

Definition g_is_symmetric (r : frep) : res bool := g_symmetric bvec_eqb (r_ev r) (r_n r) None.
Definition g_is_symmetric_at (r : frep) (j : nat) : res bool :=
  g_symmetric Bool.eqb (fun x => r_ev_at r x j) (r_n r) None.

Definition g_is_dependent (r : frep) (j i : nat) : res bool :=
  if (r_n r =? 0)%nat then Err PyValueError       (* product(repeat=-1) *)
  else existsM (fun x =>
                  let x1 := insert_at i false x in
                  do v1 <- r_ev_at r x1 j;
                  do x2 <- negate_at i x1;
                  do v2 <- r_ev_at r x2 j;
                  Ok (negb (Bool.eqb v1 v2)))
               (all_bool_vectors (r_n r - 1)).

Definition g_significant (r : frep) (j : nat) : res (list nat) :=
  filterM (g_is_dependent r j) (seq 0 (r_n r)).

Definition filter_outputs (outs : list nat) (v : bvec) : res bvec := mapM (nth_res v) outs.

Definition g_find_negations (r : frep) (outs : list nat) : res (option bvec) :=
  findM (fun negs =>
           g_symmetric bvec_eqb (fun x => do v <- r_ev r x; filter_outputs outs v) (r_n r) (Some negs))
        (all_bool_vectors (r_n r)).

Definition g_truth_table (r : frep) : res (list bvec) :=
  do rows <- mapM (r_ev r) (all_bool_vectors (r_n r)); Ok (transpose rows).

(* Circuit and PyFunction: first = ev(next(it)); for x in it: if ev(x) != first: return False *)
Definition first_rest {V} (veqb : V -> V -> bool) (ev : bvec -> res V) (xs : list bvec) : res bool :=
  match xs with
  | [] => Err PyStopIteration
  | x0 :: rest => do v0 <- ev x0; forallM (fun x => do v <- ev x; Ok (veqb v0 v)) rest
  end.
Definition g_is_constant (r : frep) : res bool :=
  first_rest bvec_eqb (r_ev r) (all_bool_vectors (r_n r)).
Definition g_is_constant_at (r : frep) (j : nat) : res bool :=
  first_rest Bool.eqb (fun x => r_ev_at r x j) (all_bool_vectors (r_n r)).

(* Circuit and PyFunction: for x in product: if evaluate_at(x, j) != [not] x[i]: return False *)
Definition g_equal_to_input (neg : bool) (r : frep) (j i : nat) : res bool :=
  forallM (fun x => do v <- r_ev_at r x j; do b <- nth_res x i; Ok (Bool.eqb v (xorb neg b)))
          (all_bool_vectors (r_n r)).

(* TruthTable and PyFunction, per output:
     if not ones_started and value != inverse: ones_started = True
     elif ones_started and value == inverse: return False *)
Fixpoint ones_started_loop {X} (ev : X -> res bool) (inverse started : bool) (xs : list X) : res bool :=
  match xs with
  | [] => Ok true
  | x :: r =>
    do v <- ev x;
    if negb started && negb (Bool.eqb v inverse) then ones_started_loop ev inverse true r
    else if started && Bool.eqb v inverse then Ok false
    else ones_started_loop ev inverse started r
  end.

(* ---- Circuit ---- *)
Definition st_bool (s : st) : res bool :=
  match s with T => Ok true | F => Ok false | U => Err GateStateError end.

Definition circ_rep (c : circuit) : frep :=
  mkRep (length (inputs c)) (length (outputs c))
        (fun x => do vs <- evaluate c (map inj x); mapM st_bool vs)
        (fun x j => do v <- evaluate_at c (map inj x) j; st_bool v).

(* is_monotone: per output a pair (change_value, current_value) *)
Fixpoint circ_mono_row (vs : bvec) (s : list (bool * bool)) : res (option (list (bool * bool))) :=
  match vs, s with
  | [], _ => Ok (Some s)
  | _ :: _, [] => Err PyIndexError
  | v :: vs', (ch, cur) :: s' =>
    if Bool.eqb v cur then do r <- circ_mono_row vs' s'; Ok (option_map (cons (ch, cur)) r)
    else if ch then Ok None
    else do r <- circ_mono_row vs' s'; Ok (option_map (cons (true, v)) r)
  end.
Fixpoint circ_mono_loop (ev : bvec -> res bvec) (s : list (bool * bool)) (xs : list bvec) : res bool :=
  match xs with
  | [] => Ok true
  | x :: r =>
    do vs <- ev x;
    do s' <- circ_mono_row vs s;
    match s' with None => Ok false | Some s'' => circ_mono_loop ev s'' r end
  end.
Definition circ_is_monotone (r : frep) (inverse : bool) : res bool :=
  circ_mono_loop (r_ev r) (repeat (false, inverse) (r_m r)) (all_bool_vectors (r_n r)).

Fixpoint circ_mono_at_loop {X} (ev : X -> res bool) (change cur : bool) (xs : list X) : res bool :=
  match xs with
  | [] => Ok true
  | x :: r =>
    do v <- ev x;
    if Bool.eqb v cur then circ_mono_at_loop ev change cur r
    else if change then Ok false
    else circ_mono_at_loop ev true (negb cur) r
  end.
Definition circ_is_monotone_at (r : frep) (j : nat) (inverse : bool) : res bool :=
  circ_mono_at_loop (fun x => r_ev_at r x j) false inverse (all_bool_vectors (r_n r)).

(* ---- TruthTable ---- *)
Definition resolve_input_size {A} (table : list (list A)) : res nat :=
  match table with
  | [] => Err PyIndexError                          (* table[0] *)
  | row0 :: _ =>
    let len := length row0 in
    if (len =? 0)%nat then Err PyValueError               (* math.log2(0) *)
    else let k := Nat.log2 len in
         if (2 ^ k =? len)%nat then Ok k else Err TruthTableBadShapeError
  end.

Record ttab : Type := mkTT { tt_n : nat; tt_table : list bvec; tt_t : list bvec }.

Definition tt_make (table : list bvec) : res ttab :=
  do n <- resolve_input_size table; Ok (mkTT n table (transpose table)).

Definition tt_rep (t : ttab) : frep :=
  mkRep (tt_n t) (length (tt_table t))
        (fun x => nth_res (tt_t t) (index_of x))
        (fun x j => do row <- nth_res (tt_t t) (index_of x); nth_res row j).

Definition tt_is_constant_at (t : ttab) (j : nat) : res bool :=
  do row <- nth_res (tt_table t) j;
  do first <- nth_res row 0;
  Ok (forallb (Bool.eqb first) row).
Definition tt_is_constant (t : ttab) : res bool :=
  forallM (tt_is_constant_at t) (seq 0 (length (tt_table t))).

Definition tt_is_monotone_at (t : ttab) (j : nat) (inverse : bool) : res bool :=
  do row <- nth_res (tt_table t) j;
  ones_started_loop (fun v => Ok v) inverse false row.
Definition tt_is_monotone (t : ttab) (inverse : bool) : res bool :=
  forallM (fun j => tt_is_monotone_at t j inverse) (seq 0 (length (tt_table t))).

Definition tt_equal_to_input (neg : bool) (t : ttab) (j i : nat) : res bool :=
  do row <- nth_res (tt_table t) j;
  forallM (fun p => do b <- get_bit_value (fst p) i (tt_n t); Ok (Bool.eqb (snd p) (xorb neg b)))
          (combine (seq 0 (length row)) row).

(* ---- PyFunction ---- *)
Record pyfun : Type := mkPy { py_n : nat; py_m : nat; py_func : bvec -> res bvec }.

(* PyFunction(func, input_size, output_size=None): calls func([False]*n) when no size is given *)
Definition py_make (func : bvec -> res bvec) (n : nat) (out : option nat) : res pyfun :=
  match out with
  | Some m => Ok (mkPy n m func)
  | None => do r <- func (repeat false n); Ok (mkPy n (length r) func)
  end.

Definition py_rep (p : pyfun) : frep :=
  mkRep (py_n p) (py_m p) (py_func p) (fun x j => do r <- py_func p x; nth_res r j).

(* any(a < b for a, b in zip(v, w)) *)
Definition any_lt (v w : bvec) : bool := existsb (fun p => negb (fst p) && snd p) (combine v w).

Fixpoint py_mono_loop (ev : bvec -> res bvec) (inverse : bool) (old : bvec) (xs : list bvec) : res bool :=
  match xs with
  | [] => Ok true
  | x :: r =>
    do v <- ev x;
    if (if inverse then any_lt old v else any_lt v old) then Ok false
    else py_mono_loop ev inverse v r          (* old_value = value : the D4 repair *)
  end.
Definition py_is_monotone (p : pyfun) (inverse : bool) : res bool :=
  match all_bool_vectors (py_n p) with
  | [] => Err PyStopIteration
  | x0 :: rest => do old <- py_func p x0; py_mono_loop (py_func p) inverse old rest
  end.
Definition py_is_monotone_at (p : pyfun) (j : nat) (inverse : bool) : res bool :=
  ones_started_loop (fun x => r_ev_at (py_rep p) x j) inverse false (all_bool_vectors (py_n p)).

(* ================================================================== *)
(* Part 4: models with don't-care outputs, `define`, integer wrappers  *)
(* ================================================================== *)
Inductive tri : Type := Def (b : bool) | DontCare.
Definition tri_eqb (a b : tri) : bool :=
  match a, b with Def x, Def y => Bool.eqb x y | DontCare, DontCare => true | _, _ => false end.

(* definition: Mapping[(tuple of input values, output index)] -> bool, as an association list *)
Definition definition := list ((bvec * nat) * bool).
Fixpoint lookup_def (d : definition) (x : bvec) (j : nat) : option bool :=
  match d with
  | [] => None
  | ((y, k), v) :: d' => if bvec_eqb x y && (j =? k)%nat then Some v else lookup_def d' x j
  end.

(* Function.define of a completely defined function *)
Definition function_define {A} (self : A) (d : definition) : res A :=
  match d with [] => Ok self | _ => Err BadDefinitionError end.

(* TruthTableModel *)
Record ttmodel : Type := mkTM { tm_n : nat; tm_table : list (list tri); tm_t : list (list tri) }.
Definition tm_make (table : list (list tri)) : res ttmodel :=
  do n <- resolve_input_size table; Ok (mkTM n table (transpose table)).
Definition tm_check (t : ttmodel) (x : bvec) : res (list tri) := nth_res (tm_t t) (index_of x).
Definition tm_check_at (t : ttmodel) (x : bvec) (j : nat) : res tri :=
  do row <- tm_check t x; nth_res row j.

Fixpoint update_nth {A} (i : nat) (g : A -> A) (l : list A) : res (list A) :=
  match i, l with
  | _, [] => Err PyIndexError
  | O, a :: r => Ok (g a :: r)
  | S i', a :: r => do r' <- update_nth i' g r; Ok (a :: r')
  end.

(* one item of the definition: table[j][index(x)] is set when (and only when) it is DontCare
   (D16 repair); the read raises IndexError for a position outside the table *)
Definition tm_define_step (tbl : list (list tri)) (item : (bvec * nat) * bool) : res (list (list tri)) :=
  let '((x, j), v) := item in
  do row <- nth_res tbl j;
  do row' <- update_nth (index_of x) (fun c => match c with DontCare => Def v | _ => c end) row;
  update_nth j (fun _ => row') tbl.

(* _parse_bool on what is left: a DontCare raises BadBooleanValue (reported as BadDefinitionError) *)
Definition parse_bool (c : tri) : res bool :=
  match c with Def b => Ok b | DontCare => Err BadDefinitionError end.

Definition tm_define (t : ttmodel) (d : definition) : res ttab :=
  do tbl <- foldM tm_define_step d (tm_table t);
  do rows <- mapM (mapM parse_bool) tbl;
  tt_make rows.

(* PyFunctionModel *)
Record pymodel : Type := mkPM { pm_n : nat; pm_m : nat; pm_func : bvec -> res (list tri) }.
Definition pm_check (p : pymodel) (x : bvec) : res (list tri) := pm_func p x.
Definition pm_check_at (p : pymodel) (x : bvec) (j : nat) : res tri :=
  do r <- pm_func p x; nth_res r j.
Definition pm_model_truth_table (p : pymodel) : res (list (list tri)) :=
  do rows <- mapM (pm_func p) (all_bool_vectors (pm_n p)); Ok (transpose rows).

(* for idx in range(output_size): if answer[idx] != DontCare: continue
                                  answer[idx] = definition[(tuple(args), idx)] *)
Fixpoint pm_fill (d : definition) (x : bvec) (idxs : list nat) (ans : list tri) : res (list tri) :=
  match idxs with
  | [] => Ok ans
  | j :: r =>
    do c <- nth_res ans j;
    match c with
    | Def _ => pm_fill d x r ans
    | DontCare =>
      match lookup_def d x j with
      | None => Err PyKeyError
      | Some v => do ans' <- update_nth j (fun _ => Def v) ans; pm_fill d x r ans'
      end
    end
  end.

(* values the callable left undefined beyond output_size stay as they are; as a PyFunction
   value they are not Booleans: reported as GateStateError (outside the checked domain) *)
Definition tri_bool (c : tri) : res bool :=
  match c with Def b => Ok b | DontCare => Err GateStateError end.

Definition pm_define (p : pymodel) (d : definition) : pyfun :=
  mkPy (pm_n p) (pm_m p)
       (fun x => do ans <- pm_func p x;
                 do ans' <- pm_fill d x (seq 0 (pm_m p)) ans;
                 mapM tri_bool ans').

(* PyFunction.from_int_unary_func / from_int_binary_func: the wrapped callable *)
Definition endian (big_endian : bool) (v : bvec) : bvec := if big_endian then v else rev v.

Definition int_unary_callable (func : nat -> nat) (in_len out_len : nat) (big_endian : bool)
  : bvec -> res bvec :=
  fun args =>
    if negb (length args =? in_len)%nat then Err PyAssertionError
    else let index := index_of (endian big_endian args) in
         Ok (endian big_endian (canonical_index_to_input (func index) out_len)).

Definition int_binary_callable (func : nat -> nat -> nat) (in_len out_len : nat) (big_endian : bool)
  : bvec -> res bvec :=
  fun args =>
    if negb (length args =? 2 * in_len)%nat then Err PyAssertionError
    else let i1 := index_of (endian big_endian (firstn in_len args)) in
         let i2 := index_of (endian big_endian (skipn in_len args)) in
         Ok (endian big_endian (canonical_index_to_input (func i1 i2) out_len)).

Definition from_int_unary_func func in_len out_len big_endian : res pyfun :=
  py_make (int_unary_callable func in_len out_len big_endian) in_len None.
Definition from_int_binary_func func in_len out_len big_endian : res pyfun :=
  py_make (int_binary_callable func in_len out_len big_endian) (2 * in_len) None.

(* ================================================================== *)
(* Part 5: queries as data                                             *)
(* ================================================================== *)
Inductive query : Type :=
| QEvaluate (x : bvec) | QEvaluateAt (x : bvec) (j : nat)
| QConstant | QConstantAt (j : nat)
| QMonotone (inverse : bool) | QMonotoneAt (j : nat) (inverse : bool)
| QSymmetric | QSymmetricAt (j : nat)
| QDependent (j i : nat)
| QEqualInput (j i : nat) | QEqualInputNeg (j i : nat)
| QSignificant (j : nat)
| QFindNegations (outs : list nat)
| QTruthTable
| QSizes.

Inductive answer : Type :=
| ABool (b : bool) | AVec (v : bvec) | ANats (l : list nat) | AOptVec (o : option bvec)
| ATable (t : list bvec).

Definition answer_eqb (a b : answer) : bool :=
  match a, b with
  | ABool x, ABool y => Bool.eqb x y
  | AVec x, AVec y => bvec_eqb x y
  | ANats x, ANats y => all_eqb Nat.eqb x y
  | AOptVec None, AOptVec None => true
  | AOptVec (Some x), AOptVec (Some y) => bvec_eqb x y
  | ATable x, ATable y => all_eqb bvec_eqb x y
  | _, _ => false
  end.

Definition amap {A} (g : A -> answer) (r : res A) : res answer :=
  match r with Ok a => Ok (g a) | Err e => Err e end.

Inductive cls : Type := ClsCircuit | ClsTruthTable (t : ttab) | ClsPyFunction (p : pyfun).

(* the queries whose code is class specific *)
Definition run_query (k : cls) (r : frep) (q : query) : res answer :=
  match q with
  | QEvaluate x => amap AVec (r_ev r x)
  | QEvaluateAt x j => amap ABool (r_ev_at r x j)
  | QConstant =>
    amap ABool (match k with ClsTruthTable t => tt_is_constant t | _ => g_is_constant r end)
  | QConstantAt j =>
    amap ABool (match k with ClsTruthTable t => tt_is_constant_at t j | _ => g_is_constant_at r j end)
  | QMonotone inv =>
    amap ABool (match k with
                | ClsCircuit => circ_is_monotone r inv
                | ClsTruthTable t => tt_is_monotone t inv
                | ClsPyFunction p => py_is_monotone p inv
                end)
  | QMonotoneAt j inv =>
    amap ABool (match k with
                | ClsCircuit => circ_is_monotone_at r j inv
                | ClsTruthTable t => tt_is_monotone_at t j inv
                | ClsPyFunction p => py_is_monotone_at p j inv
                end)
  | QSymmetric => amap ABool (g_is_symmetric r)
  | QSymmetricAt j => amap ABool (g_is_symmetric_at r j)
  | QDependent j i => amap ABool (g_is_dependent r j i)
  | QEqualInput j i =>
    amap ABool (match k with ClsTruthTable t => tt_equal_to_input false t j i
                        | _ => g_equal_to_input false r j i end)
  | QEqualInputNeg j i =>
    amap ABool (match k with ClsTruthTable t => tt_equal_to_input true t j i
                        | _ => g_equal_to_input true r j i end)
  | QSignificant j => amap ANats (g_significant r j)
  | QFindNegations outs => amap AOptVec (g_find_negations r outs)
  | QTruthTable =>
    amap ATable (match k with ClsTruthTable t => Ok (tt_table t) | _ => g_truth_table r end)
  | QSizes => Ok (ANats [r_n r; r_m r])
  end.

Definition circuit_query (c : circuit) (q : query) : res answer := run_query ClsCircuit (circ_rep c) q.
Definition tt_query (t : ttab) (q : query) : res answer := run_query (ClsTruthTable t) (tt_rep t) q.
Definition py_query (p : pyfun) (q : query) : res answer := run_query (ClsPyFunction p) (py_rep p) q.
