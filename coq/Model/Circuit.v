(* The Circuit netlist of cirbo/core/circuit/circuit.py as an immutable value, and
   its basic accessors and mutators.  Every Python method `m(self, args)` that
   mutates and returns self becomes  m : circuit -> args -> res circuit.
   Dicts are insertion ordered association lists (Base.dict) because iteration
   order of `_gates` is observable (top_sort, format_circuit, ...). *)
Require Import Cirbo.Model.Base Cirbo.Model.Gate.

Record block : Type := mkBlock {
  binputs : list label; bgates : list label; boutputs : list label }.

Record circuit : Type := mkCircuit {
  inputs : list label;
  outputs : list label;
  gates : dict gate;                  (* _gates: label -> Gate (label is the key) *)
  users : dict (list label);          (* _gate_to_users *)
  blocks : dict block }.

Definition empty_circuit : circuit := mkCircuit [] [] [] [] [].

Definition set_inputs_raw c v := mkCircuit v (outputs c) (gates c) (users c) (blocks c).
Definition set_outputs_raw c v := mkCircuit (inputs c) v (gates c) (users c) (blocks c).
Definition set_gates c v := mkCircuit (inputs c) (outputs c) v (users c) (blocks c).
Definition set_users c v := mkCircuit (inputs c) (outputs c) (gates c) v (blocks c).
Definition set_blocks c v := mkCircuit (inputs c) (outputs c) (gates c) (users c) v.

Definition size (c : circuit) : nat := length (gates c).
Definition has_gate (c : circuit) (l : label) : bool := dmem (gates c) l.

Definition get_gate (c : circuit) (l : label) : res gate :=
  match dget (gates c) l with Some g => Ok g | None => Err GateDoesntExistError end.

Definition get_gate_users (c : circuit) (l : label) : res (list label) :=
  if has_gate c l then
    match dget (users c) l with Some us => Ok us | None => Ok [] end
  else Err GateDoesntExistError.

Definition get_block (c : circuit) (b : label) : res block :=
  match dget (blocks c) b with Some x => Ok x | None => Err PyKeyError end.

(* ---- validation.py ---- *)
Fixpoint check_gates_exist (ls : list label) (c : circuit) : res unit :=
  match ls with
  | [] => Ok tt
  | l :: ls' => if has_gate c l then check_gates_exist ls' c else Err CircuitValidationError
  end.

Definition check_label_doesnt_exist (l : label) (c : circuit) : res unit :=
  if has_gate c l then Err CircuitValidationError else Ok tt.

Definition check_block_doesnt_exist (b : label) (c : circuit) : res unit :=
  if dmem (blocks c) b then Err CircuitValidationError else Ok tt.

Definition check_gate_has_not_users (l : label) (c : circuit) : res unit :=
  do us <- get_gate_users c l;
  match us with [] => Ok tt | _ => Err GateHasUsersError end.

(* for gate in block.gates: if gate not in exclusion: for user in users(gate): if user not in gates_set: raise *)
Fixpoint check_block_has_no_users_loop (bg : list label) (all_bg excl : list label) (c : circuit) : res unit :=
  match bg with
  | [] => Ok tt
  | g :: rest =>
    do _ <- (if memb g excl then Ok tt else
             do us <- get_gate_users c g;
             if forallb (fun u => memb u all_bg) us then Ok tt else Err DeleteBlockError);
    check_block_has_no_users_loop rest all_bg excl c
  end.
Definition check_block_has_no_users (b : block) (c : circuit) (excl : list label) : res unit :=
  check_block_has_no_users_loop (bgates b) (bgates b) excl c.

(* ---- users index ---- *)
Definition add_user (c : circuit) (g u : label) : circuit :=
  match dget (users c) g with
  | None => set_users c (dset (users c) g [u])
  | Some us => set_users c (dset (users c) g (us ++ [u]))
  end.

Definition remove_user (c : circuit) (g u : label) : circuit :=
  match dget (users c) g with
  | Some us => if memb u us then set_users c (dset (users c) g (remove1 u us)) else c
  | None => c
  end.

Definition add_users (c : circuit) (ops : list label) (u : label) : circuit :=
  fold_left (fun c op => add_user c op u) ops c.
Definition remove_users (c : circuit) (ops : list label) (u : label) : circuit :=
  fold_left (fun c op => remove_user c op u) ops c.

(* ---- _emplace_gate / _add_gate (no checks) ---- *)
Definition emplace_gate_raw (c : circuit) (l : label) (t : gtype) (ops : list label) : circuit :=
  let c1 := add_users c ops l in
  let c2 := set_gates c1 (dset (gates c1) l (mkGate t ops)) in
  if gtype_beq t INPUT then set_inputs_raw c2 (inputs c2 ++ [l]) else c2.

(* add_gate / emplace_gate (with checks) *)
Definition emplace_gate (c : circuit) (l : label) (t : gtype) (ops : list label) : res circuit :=
  do _ <- check_label_doesnt_exist l c;
  do _ <- check_gates_exist ops c;
  Ok (emplace_gate_raw c l t ops).
Definition add_gate := emplace_gate.

Fixpoint add_inputs (c : circuit) (ls : list label) : res circuit :=
  match ls with
  | [] => Ok c
  | l :: ls' => do _ <- check_label_doesnt_exist l c;
                do c' <- emplace_gate c l INPUT []; add_inputs c' ls'
  end.

(* ---- blocks ---- *)
Definition delete_block (c : circuit) (b : label) : res circuit :=
  if dmem (blocks c) b then Ok (set_blocks c (ddel (blocks c) b)) else Err PyKeyError.

(* blocks = list(self.blocks.values()); for block in blocks: if label in gates or inputs: delete_block *)
Definition drop_blocks_mentioning (c : circuit) (l : label) : circuit :=
  set_blocks c (filter (fun kb => negb (memb l (bgates (snd kb)) || memb l (binputs (snd kb))
                                        || memb l (boutputs (snd kb)))) (blocks c)).

(* ---- _remove_gate ---- *)
Definition remove_gate_raw (c : circuit) (l : label) : res circuit :=
  do g <- get_gate c l;
  let c1 := remove_users c (gops g) l in
  let c2 := set_users c1 (ddel (users c1) l) in
  let c3 := set_gates c2 (ddel (gates c2) l) in
  do c4 <- (if gtype_beq (gtyp g) INPUT then
              if memb l (inputs c3) then Ok (set_inputs_raw c3 (remove1 l (inputs c3)))
              else Err PyValueError
            else Ok c3);
  let c5 := if memb l (outputs c4) then set_outputs_raw c4 (remove_all l (outputs c4)) else c4 in
  Ok (drop_blocks_mentioning c5 l).

Definition remove_gate (c : circuit) (l : label) : res circuit :=
  do _ <- check_gates_exist [l] c;
  do _ <- check_gate_has_not_users l c;
  remove_gate_raw c l.

(* _remove_block: for g in block.gates: self._remove_gate(self.get_gate(g).label) *)
Definition remove_block_raw (c : circuit) (b : label) : res circuit :=
  do blk <- get_block c b;
  foldM (fun c g => do _ <- get_gate c g; remove_gate_raw c g) (bgates blk) c.

Definition remove_block (c : circuit) (b : label) : res circuit :=
  do blk <- get_block c b;
  do _ <- check_block_has_no_users blk c [];
  remove_block_raw c b.

(* make_block(name, gates, outputs, inputs=None) *)
Definition collect_block_inputs (c : circuit) (gs : list label) : res (list label) :=
  foldM (fun acc g => do gt <- get_gate c g;
                      Ok (acc ++ filter (fun op => negb (memb op gs)) (gops gt))) gs [].

Definition make_block (c : circuit) (name : label) (gs outs : list label) (ins : option (list label))
  : res circuit :=
  do _ <- check_block_doesnt_exist name c;
  do _ <- check_gates_exist gs c;
  do _ <- check_gates_exist outs c;
  do ins' <- match ins with
             | Some i => do _ <- check_gates_exist i c; Ok i
             | None => collect_block_inputs c gs
             end;
  Ok (set_blocks c (dset (blocks c) name (mkBlock ins' gs outs))).

(* make_block_from_slice: closure from outputs down to inputs.
   Python uses a set + stack whose iteration order depends on string hashing; the
   model keeps discovery order (stack discipline: pop from the end) and the
   comparison of block gate lists is order-insensitive for such blocks. *)
Fixpoint slice_loop (fuel : nat) (c : circuit) (ins : list label) (gs queue : list label)
  : res (list label) :=
  match fuel with
  | O => Err OutOfFuel
  | S fuel' =>
    match rev queue with
    | [] => Ok gs
    | cur :: rq =>
      let queue' := rev rq in
      do g <- get_gate c cur;
      do st <- foldM (fun (st : list label * list label) op =>
                 let '(gs, q) := st in
                 if memb op ins then Ok st else
                 do og <- get_gate c op;
                 if gtype_beq (gtyp og) INPUT then Err CreateBlockError else
                 if memb op gs then Ok st else Ok (gs ++ [op], q ++ [op])) (gops g) (gs, queue');
      slice_loop fuel' c ins (fst st) (snd st)
    end
  end.

Fixpoint dedup (l : list label) : list label :=
  match l with [] => [] | x :: xs => if memb x xs then dedup xs else x :: dedup xs end.

(* canonical order for block gate lists that Python derives from a `set`:
   the order of the circuit's gate map (the harness reorders the implementation's
   list the same way; see DESIGN 2 "Determinism"). *)
Definition canonical_block_gates (c : circuit) (gs : list label) : list label :=
  filter (fun k => memb k gs) (dkeys (gates c)).

Definition make_block_from_slice (c : circuit) (name : label) (ins outs : list label) : res circuit :=
  do _ <- check_block_doesnt_exist name c;
  do _ <- check_gates_exist ins c;
  do _ <- check_gates_exist outs c;
  let gs0 := dedup (filter (fun o => negb (memb o ins)) outs) in
  do gs <- slice_loop (S (size c)) c ins gs0 gs0;
  make_block c name (canonical_block_gates c gs) outs (Some ins).

(* ---- outputs / inputs ---- *)
Definition mark_as_output (c : circuit) (l : label) : res circuit :=
  do _ <- check_gates_exist [l] c; Ok (set_outputs_raw c (outputs c ++ [l])).

Definition set_outputs (c : circuit) (outs : list label) : res circuit :=
  do _ <- check_gates_exist outs c; Ok (set_outputs_raw c outs).

Definition is_input_gate (c : circuit) (l : label) : bool :=
  match dget (gates c) l with Some g => gtype_beq (gtyp g) INPUT | None => false end.

Fixpoint set_inputs_loop (c : circuit) (ins acc : list label) : res (list label) :=
  match ins with
  | [] => Ok acc
  | i :: rest =>
    do g <- get_gate c i;
    if negb (gtype_beq (gtyp g) INPUT) || memb i acc then Err CircuitValidationError
    else set_inputs_loop c rest (acc ++ [i])
  end.

Definition set_inputs (c : circuit) (ins : list label) : res circuit :=
  do _ <- check_gates_exist ins c;
  if forallb (fun kg => negb (gtype_beq (gtyp (snd kg)) INPUT) || memb (fst kg) ins) (gates c) then
    do acc <- set_inputs_loop c ins []; Ok (set_inputs_raw c acc)
  else Err CircuitValidationError.

(* utils.order_list *)
Fixpoint order_list_loop (ordered old_copy acc : list label) : res (list label * list label) :=
  match ordered with
  | [] => Ok (acc, old_copy)
  | e :: rest =>
    if memb e old_copy then order_list_loop rest (remove1 e old_copy) (acc ++ [e])
    else Err CircuitGateIsAbsentError
  end.
Definition order_list (ordered old : list label) : res (list label) :=
  do r <- order_list_loop ordered old [];
  let '(new, old_copy) := r in
  if Nat.eqb (length new) (length old) then Ok new else Ok (new ++ old_copy).

Definition order_inputs (c : circuit) (ins : list label) : res circuit :=
  do l <- order_list ins (inputs c); Ok (set_inputs_raw c l).
Definition order_outputs (c : circuit) (outs : list label) : res circuit :=
  do l <- order_list outs (outputs c); Ok (set_outputs_raw c l).

(* replace_inputs *)
Definition replace_inputs_with (c : circuit) (ls : list label) (t : gtype) : res circuit :=
  foldM (fun c l =>
    do g <- get_gate c l;
    if negb (gtype_beq (gtyp g) INPUT) then Err GateNotInputError else
    let c1 := set_gates c (dset (gates c) l (mkGate t [])) in
    if memb l (inputs c1) then Ok (set_inputs_raw c1 (remove1 l (inputs c1))) else Err PyValueError) ls c.

Definition replace_inputs (c : circuit) (to_true to_false : list label) : res circuit :=
  do c1 <- replace_inputs_with c to_true ALWAYS_TRUE;
  replace_inputs_with c1 to_false ALWAYS_FALSE.

(* ---- rename_gate ---- *)
Definition rename_in_block (old new : label) (b : block) : block :=
  mkBlock (subst_label old new (binputs b)) (subst_label old new (bgates b)) (subst_label old new (boutputs b)).

Definition rename_gate (c : circuit) (old new : label) : res circuit :=
  if negb (has_gate c old) then Err CircuitGateIsAbsentError else
  if has_gate c new then Err CircuitGateAlreadyExistsError else
  let c1 := if memb old (inputs c) then set_inputs_raw c (subst_first old new (inputs c)) else c in
  let c2 := if memb old (outputs c1) then set_outputs_raw c1 (subst_label old new (outputs c1)) else c1 in
  do c3 <- match dget (users c2) old with
           | Some us =>
             do gs <- foldM (fun gs u =>
                        match dget gs u with
                        | Some ug => Ok (dset gs u (mkGate (gtyp ug) (subst_label old new (gops ug))))
                        | None => Err PyKeyError
                        end) us (gates c2);
             let c' := set_gates c2 gs in
             Ok (set_users c' (ddel (dset (users c') new us) old))
           | None => Ok c2
           end;
  do og <- match dget (gates c3) old with Some g => Ok g | None => Err PyKeyError end;
  do us' <- foldM (fun usd op =>
              match dget usd op with
              | None => Err PyKeyError
              | Some ou => if memb old ou then Ok (dset usd op (subst_first old new ou))
                           else Err PyAssertionError
              end) (gops og) (users c3);
  let c4 := set_users c3 us' in
  do og' <- match dget (gates c4) old with Some g => Ok g | None => Err PyKeyError end;
  let c5 := set_gates c4 (ddel (dset (gates c4) new (mkGate (gtyp og') (gops og'))) old) in
  Ok (set_blocks c5 (map (fun kb => (fst kb, rename_in_block old new (snd kb))) (blocks c5))).
