(* Check functions evaluated (vm_compute) on the case files the harness writes for C06:
   implementation results are recorded in the case, the model is run here and compared. *)
Require Import Cirbo.Model.Base Cirbo.Model.Gate Cirbo.Model.Den Cirbo.Model.Circuit Cirbo.Model.History Cirbo.Model.Eval.
Require Import Cirbo.Model.Search Cirbo.Model.SearchCircuit Cirbo.Generated.SearchTables.
Local Open Scope nat_scope.

(* (spec, CircuitFinderSat.get_cnf() with the IDPool inverted): clause for clause, order included *)
Definition cnf_case : Type := (spec * list clause)%type.
Definition check_cnf_case (c : cnf_case) : bool :=
  spec_wfb (fst c) && cnf_eqb (encode (fst c)) (snd c).

(* (spec, variables true in the model list, what _get_circuit_by_model returned / raised,
    verdict of the Python validity checker on that circuit when it was built) *)
Definition decode_case : Type := (spec * list var * res circuit * option bool)%type.
(* the typed evaluation `tvalue` (by den) against the shared circuit evaluator (Model/Eval.v, the
   model of Circuit.get_truth_table that C01 ties to the semantics) on the built Circuit *)
Definition truth_table_agrees (sp : spec) (tc : tckt) : bool :=
  match build_circuit (sp_n sp) tc with
  | Ok circ =>
      res_eqb (all_eqb (all_eqb st_beq)) (get_truth_table circ)
        (Ok (map (fun o => map (fun t => inj (tvalue (sp_n sp) (tc_gates tc) t o)) (rows sp)) (tc_outs tc)))
  | Err _ => true
  end.

Definition check_decode_case (c : decode_case) : bool :=
  let '(sp, trues, expected, verdict) := c in
  let s := asg_of trues in
  res_eqb circuit_eqb (do tc <- decode_typed tt_to_gate_type sp s; build_circuit (sp_n sp) tc) expected
  && match decode_typed tt_to_gate_type sp s with Ok tc => truth_table_agrees sp tc | Err _ => true end
  && match verdict with
     | None => true
     | Some b => Bool.eqb (match decode sp s with Ok ck => validb sp ck | Err _ => false end) b
     end.

(* fix_gate / forbid_wire argument checks: (spec, call, error raised or None) *)
Definition cons_err_eqb (a b : cons_err) : bool :=
  match a, b with
  | CE_GateIsAbsent, CE_GateIsAbsent | CE_FixGate, CE_FixGate | CE_FixGateOrder, CE_FixGateOrder
  | CE_ForbidWireOrder, CE_ForbidWireOrder | CE_GateType, CE_GateType => true
  | _, _ => false
  end.
Definition cons_case : Type := (spec * constraint * option cons_err)%type.
Definition check_cons_case (c : cons_case) : bool :=
  let '(sp, k, e) := c in
  let got := match check_constraint sp k with Some x => Some x | None => check_constraint_type k end in
  match got, e with
  | None, None => true
  | Some x, Some y => cons_err_eqb x y
  | _, _ => false
  end.

(* the generated tables against the live Python objects *)
Definition find_operation (name : string) : option operation :=
  find (fun o => String.eqb (op_name o) name) all_operations.

(* (Operation member name, its value as a table) *)
Definition check_operation_case (c : string * tt4) : bool :=
  match find_operation (fst c) with Some o => tt4_eqb (op_table o) (snd c) | None => false end.

(* (Basis member name, names of its operations) *)
Definition check_basis_case (c : string * list string) : bool :=
  match find (fun nb => String.eqb (fst nb) (fst c)) all_bases with
  | Some nb => all_eqb String.eqb (map op_name (snd nb)) (snd c)
  | None => false
  end.

(* (table, name of _tt_to_gate_type[table]) *)
Definition check_tt_case (c : tt4 * gtype) : bool := gtype_beq (tt_to_gate_type (fst c)) (snd c).
