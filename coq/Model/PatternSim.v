(* The pattern simulation of cirbo/minimization/subcircuit.py (C04):
   _get_subcircuits (the per-cut simulation loop, outputs and size of a cone),
   _Subcircuit.evaluate_truth_table_with_dont_cares and _eval_dont_cares.
   eval_pattern / max_pattern / generate_inputs_tt come from Generated/PatternOps.v
   (translator t5); the loops below are hand-written and tied to the implementation by
   harness/patcorr.py. *)
Require Import Cirbo.Model.Base Cirbo.Model.Gate Cirbo.Model.Circuit Cirbo.Model.Eval.
Require Import Cirbo.Generated.GateTypes Cirbo.Generated.PatternOps.

(* circuit_tt is a collections.defaultdict(int): a missing key reads as 0 *)
Definition pat_get (d : dict N) (l : label) : N :=
  match dget d l with Some p => p | None => 0%N end.

(* for i, node in enumerate(inputs_lst): circuit_tt[node] = inputs_tt[n][i] *)
Fixpoint assign_leaves (leaves : list label) (tts : list N) (d : dict N) : res (dict N) :=
  match leaves, tts with
  | [], _ => Ok d
  | l :: ls, t :: ts => assign_leaves ls ts (dset d l t)
  | _ :: _, [] => Err PyIndexError
  end.

(* leaves = inputs_lst (distinct labels, in the order in which they receive the input
   patterns); nodes = sorted(cut_nodes[cut], key=node_pos) (leaves included, they are skipped) *)
Definition simulate_cone (c : circuit) (leaves nodes : list label) : res (dict N) :=
  let n := N.of_nat (length leaves) in
  do d0 <- assign_leaves leaves (generate_inputs_tt n) [];
  foldM (fun d node =>
           if memb node leaves then Ok d else
           do g <- get_gate c node;
           do p <- eval_pattern (max_pattern n) (gtyp g) (map (pat_get d) (gops g));
           Ok (dset d node p)) nodes d0.

Definition no_users_b {A : Type} (l : list A) : bool := match l with [] => true | _ => false end.

(* circuit_size: the non-leaf nodes that are not NOT gates *)
Definition cone_size (c : circuit) (leaves nodes : list label) : res nat :=
  foldM (fun k node =>
           if memb node leaves then Ok k else
           do g <- get_gate c node;
           Ok (if gtype_beq (gtyp g) NOT then k else S k)) nodes 0%nat.

(* outputs of the cone (as repaired by fixes/D33.patch): circuit outputs, nodes without users,
   and nodes with a user outside cut_nodes[cut] or among the leaves of the cut *)
Definition cone_outputs (c : circuit) (leaves nodes : list label) : res (list label) :=
  foldM (fun acc node =>
           if memb node leaves then Ok acc else
           do us <- get_gate_users c node;
           if memb node (outputs c) || no_users_b us
              || negb (forallb (fun u => memb u nodes && negb (memb u leaves)) us)
           then Ok (acc ++ [node]) else Ok acc) nodes [].

(* ---- evaluate_truth_table_with_dont_cares ----
   inputs_tt (a list of '0'/'1' strings) is a list of Boolean vectors; DontCare is None.
   Literal model: every row shifts all patterns right and reads the old lowest bit. *)
Definition vec_eqb : list bool -> list bool -> bool := all_eqb Bool.eqb.
Definition vec_mem (v : list bool) (care : list (list bool)) : bool := existsb (vec_eqb v) care.

Definition tt_row_step (care : list (list bool)) (st : list N * list (list (option bool)))
           (asg : list bool) : list N * list (list (option bool)) :=
  (map (fun p => N.shiftr p 1) (fst st),
   map (fun pr : N * list (option bool) =>
          snd pr ++ [if vec_mem asg care then Some (N.odd (fst pr)) else None])
       (combine (fst st) (snd st))).

Definition tt_with_dont_cares (n : nat) (pats : list N) (care : list (list bool))
  : list (list (option bool)) :=
  snd (fold_left (tt_row_step care) (all_bool_vectors n) (pats, map (fun _ => []) pats)).

(* ---- _eval_dont_cares: the leaf-value vectors that occur under some input assignment ----
   (the implementation sorts and deduplicates the strings; the model keeps one vector per
   input assignment, the comparison is as sets) *)
Definition st_bool (v : option st) : res bool :=
  match v with Some T => Ok true | Some F => Ok false | _ => Err PyIndexError end.

Definition reachable_vectors (c : circuit) (leaves : list label) : res (list (list bool)) :=
  mapM (fun x =>
          do a <- zip_inputs (inputs c) (map inj x) [];
          do d <- evaluate_full_circuit c a;
          mapM (fun l => st_bool (dget d l)) leaves)
       (all_bool_vectors (length (inputs c))).

Definition care_covers (c : circuit) (leaves : list label) (care : list (list bool)) : bool :=
  match reachable_vectors c leaves with
  | Ok vs => forallb (fun v => vec_mem v care) vs
  | Err _ => false
  end.

Definition same_vector_set (a b : list (list bool)) : bool :=
  forallb (fun v => vec_mem v b) a && forallb (fun v => vec_mem v a) b.
