(* Executable model of  cirbo.sat.cnf.tseytin.tseytin_transformation(circuit, outputs)
   and of cirbo.sat.is_circuit_satisfiable.

   Python                                            model
   ------------------------------------------------  -----------------------------------------
   saved_lits (defaultdict, factory next_lit += 1)    saved : dict Z  +  next_lit : Z
   for input_label in circuit.inputs: saved_lits[..]  alloc_inputs (i-th input gets variable i+1)
   process_gate(label)   (memoised recursion, the     process_gate fuel ...   recursion on fuel =
     literal of a gate is allocated AFTER those of       bound on the recursion DEPTH (every nested
     its operands, its clauses are appended after        call gets fuel-1); Err OutOfFuel when
     theirs)                                             exhausted
   _operations[gate_type](cnf, top_lit, lits)          Generated.Tseytin.template_of (regenerated)
   for output_index in outputs: ... cnf.append([lit])  foldM over the indices, unit clause each
   Cnf(cnf).get_raw()                                  first component of the result

   CPython's recursion limit (RecursionError on circuits deeper than about 1000 gates, and on
   cyclic netlists) is a runtime limit outside the model: the model's fuel has no such cap and
   a cyclic netlist gives Err OutOfFuel. *)
Require Import Cirbo.Model.Base Cirbo.Model.Gate Cirbo.Model.Den Cirbo.Model.Circuit Cirbo.Model.Eval Cirbo.Model.Sem Cirbo.Model.Cnf.
Require Import Cirbo.Generated.Tseytin.
Local Open Scope Z_scope.

Record tstate : Type := mkT {
  saved : dict Z;            (* saved_lits *)
  next_lit : Z;              (* next_lit *)
  clauses : list (list Z)    (* cnf *)
}.

Definition t_init : tstate := mkT [] 0 [].

(* saved_lits[label] on the defaultdict: a missing key is given the next literal *)
Definition get_lit (s : tstate) (l : label) : tstate * Z :=
  match dget (saved s) l with
  | Some v => (s, v)
  | None => let n := next_lit s + 1 in (mkT (dset (saved s) l n) n (clauses s), n)
  end.

Definition alloc_inputs (c : circuit) : tstate :=
  fold_left (fun s i => fst (get_lit s i)) (inputs c) t_init.

Definition add_clauses (s : tstate) (cl : list (list Z)) : tstate :=
  mkT (saved s) (next_lit s) (clauses s ++ cl).

(* [f(x) for x in xs] where f threads a state *)
Fixpoint mapS {S A B} (f : S -> A -> res (S * B)) (s : S) (l : list A) : res (S * list B) :=
  match l with
  | [] => Ok (s, [])
  | x :: xs =>
    do r <- f s x;
    do r' <- mapS f (fst r) xs;
    Ok (fst r', snd r :: snd r')
  end.

Fixpoint process_gate (fuel : nat) (c : circuit) (s : tstate) (l : label) : res (tstate * Z) :=
  match fuel with
  | O => Err OutOfFuel
  | S fuel' =>
    match dget (saved s) l with
    | Some v => Ok (s, v)                                   (* if label in saved_lits *)
    | None =>
      do g <- get_gate c l;
      do r <- mapS (process_gate fuel' c) s (gops g);      (* lits = [process_gate(op) ...] *)
      let '(s2, top) := get_lit (fst r) l in               (* top_lit = get_lit(label) *)
      do cl <- template_of (gtyp g) top (snd r);
      Ok (add_clauses s2 cl, top)
    end
  end.

(* Circuit.output_at_index(idx) for a Python int: idx >= len raises GateDoesntExistError,
   a negative index is Python list indexing from the end (IndexError below -len) *)
Definition output_at_index_z (c : circuit) (i : Z) : res label :=
  let n := Z.of_nat (List.length (outputs c)) in
  if i >=? n then Err GateDoesntExistError
  else if i <? - n then Err PyIndexError
  else nth_res (outputs c) (Z.to_nat (if i <? 0 then i + n else i)).

(* outputs=None -> list(range(circuit.output_size)) *)
Definition selected_indices (c : circuit) (outs : option (list Z)) : list Z :=
  match outs with
  | Some o => o
  | None => map Z.of_nat (seq 0 (List.length (outputs c)))
  end.

Definition selected_outputs (c : circuit) (outs : option (list Z)) : res (list label) :=
  mapM (output_at_index_z c) (selected_indices c outs).

Definition process_output (fuel : nat) (c : circuit) (s : tstate) (i : Z) : res tstate :=
  do o <- output_at_index_z c i;
  do r <- process_gate fuel c s o;
  Ok (add_clauses (fst r) [[snd r]]).

(* result: the clause list (Cnf.get_raw()) and the label -> variable map *)
Definition tseytin_fuel (fuel : nat) (c : circuit) (outs : option (list Z)) : res (list (list Z) * dict Z) :=
  do s <- foldM (process_output fuel c) (selected_indices c outs) (alloc_inputs c);
  Ok (clauses s, saved s).

(* the depth of the recursion never exceeds the number of gates on an acyclic netlist *)
Definition tseytin (c : circuit) (outs : option (list Z)) : res (list (list Z) * dict Z) :=
  tseytin_fuel (S (size c)) c outs.

Definition tseytin_cnf (c : circuit) (outs : option (list Z)) : res (list (list Z)) :=
  do r <- tseytin c outs; Ok (fst r).

(* ---- hypotheses of the exactness theorems, as executable predicates -------------- *)

(* the input list is duplicate-free and lists exactly the INPUT gates *)
Definition inputs_exactb (c : circuit) : bool :=
  nodupb (inputs c) && forallb (is_input_gate c) (inputs c)
  && forallb (fun kg : label * gate =>
                negb (gtype_beq (gtyp (snd kg)) INPUT) || memb (fst kg) (inputs c)) (gates c).

(* every non-INPUT gate has an operand count its operator accepts *)
Definition arity_okb (c : circuit) : bool :=
  forallb (fun kg : label * gate =>
             gtype_beq (gtyp (snd kg)) INPUT
             || Den.den_accepts (gtyp (snd kg)) (List.length (gops (snd kg)))) (gates c).

Definition tseytin_wf (c : circuit) : bool := inputs_exactb c && arity_okb c.

(* every operand and every output names a gate of the circuit *)
Definition closedb (c : circuit) : bool :=
  forallb (fun kg : label * gate => forallb (has_gate c) (gops (snd kg))) (gates c)
  && forallb (has_gate c) (outputs c).

(* sigma gives CNF variable i+1 the value the assignment gives the i-th circuit input *)
Definition agrees_on_inputs (c : circuit) (a : Eval.assignment) (sigma : Z -> bool) : Prop :=
  forall i l, nth_error (inputs c) i = Some l -> inj (sigma (Z.of_nat i + 1)) = Sem.aval a l.

(* a solver's model [1; -2; 3; ...] as a valuation: v is true iff the literal v occurs *)
Definition sigma_of_model (m : list Z) (v : Z) : bool := existsb (Z.eqb v) m.

(* cirbo.sat.is_circuit_satisfiable for a solver  solve : cnf -> option model *)
Definition is_circuit_satisfiable (solve : list (list Z) -> option (list Z)) (c : circuit)
  : res (option (list Z)) :=
  do f <- tseytin_cnf c None; Ok (solve f).

(* the input assignment a returned model projects onto: input i gets the value of variable i+1 *)
Fixpoint assign_from (sigma : Z -> bool) (ls : list label) (k : Z) : Eval.assignment :=
  match ls with
  | [] => []
  | l :: r => (l, inj (sigma k)) :: assign_from sigma r (k + 1)
  end.
Definition assignment_of (c : circuit) (sigma : Z -> bool) : Eval.assignment :=
  assign_from sigma (inputs c) 1.
