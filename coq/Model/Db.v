(* cirbo/circuits_db/normalization.py (NormalizationInfo) and db.py (CircuitsDatabase on an
   opened database: the `_dict` of label -> encoded circuit).

   Truth tables are `list (list bool)` (one row per output); tables with don't-cares are
   `list (list (option bool))` (None = DontCare).
   Two exception classes of circuits_db/exceptions.py have no constructor in Base.err
   (CircuitsDatabaseError itself and CircuitIsNotCompatibleWithNormalizationParameters);
   the database level therefore has its own small result type `dbres`. *)
Require Import Cirbo.Model.Base Cirbo.Model.Gate Cirbo.Model.Circuit Cirbo.Model.Eval.
Require Import Cirbo.Model.BitIO Cirbo.Model.DictIO Cirbo.Model.Codec.

Inductive dberr : Type :=
| BaseErr (e : err)
| CircuitsDatabaseError
| NotCompatibleWithNormalization.

Inductive dbres (A : Type) : Type :=
| DbOk : A -> dbres A
| DbErr : dberr -> dbres A.
Arguments DbOk {A} _.
Arguments DbErr {A} _.

Definition lift {A} (r : res A) : dbres A :=
  match r with Ok a => DbOk a | Err e => DbErr (BaseErr e) end.
Definition dbbind {A B} (r : dbres A) (f : A -> dbres B) : dbres B :=
  match r with DbOk a => f a | DbErr e => DbErr e end.
Notation "'dbdo' x <- r ; k" := (dbbind r (fun x => k))
  (at level 200, x pattern, r at level 100, k at level 200).

Definition table := list (list bool).

(* ------------------------------------------------------------------ *)
(* NormalizationInfo *)
Record norm_info : Type := mkNorm {
  negations : list bool;
  permutation : list nat;
  mapping : list nat;
  norm_table : table }.

(* _normalize_outputs:  tt[0]  raises IndexError on an empty row *)
Fixpoint normalize_outputs (t : table) : res (list bool * table) :=
  match t with
  | [] => Ok ([], [])
  | row :: rest =>
    match row with
    | [] => Err PyIndexError
    | b :: _ =>
      do r <- normalize_outputs rest;
      Ok (b :: fst r, (if b then map negb row else row) :: snd r)
    end
  end.

(* Python's list comparison on lists of bool *)
Fixpoint row_leb (a b : list bool) : bool :=
  match a, b with
  | [], _ => true
  | _ :: _, [] => false
  | x :: a', y :: b' => if Bool.eqb x y then row_leb a' b' else negb x
  end.

Definition row_eqb (a b : list bool) : bool := all_eqb Bool.eqb a b.

(* list.sort(key=...) is stable: insertion after the last element that is <= the new one *)
Fixpoint insert_sorted (x : nat * list bool) (l : list (nat * list bool)) : list (nat * list bool) :=
  match l with
  | [] => [x]
  | y :: l' => if row_leb (snd y) (snd x) then y :: insert_sorted x l' else x :: y :: l'
  end.

Definition stable_sort (l : list (nat * list bool)) : list (nat * list bool) :=
  fold_left (fun acc x => insert_sorted x acc) l [].

Fixpoint enumerate_from {A} (i : nat) (l : list A) : list (nat * A) :=
  match l with [] => [] | x :: r => (i, x) :: enumerate_from (S i) r end.

(* _sort_outputs *)
Definition sort_outputs (t : table) : list nat * table :=
  let s := stable_sort (enumerate_from 0 t) in (map fst s, map snd s).

(* _delete_duplicate_outputs: truth_table[0] raises IndexError on an empty table *)
Fixpoint dedup_loop (prev : list bool) (rest : table) (new_rev : table) (map_rev : list nat)
  : table * list nat :=
  match rest with
  | [] => (rev new_rev, rev map_rev)
  | row :: rest' =>
    let new_rev' := if row_eqb row prev then new_rev else row :: new_rev in
    dedup_loop row rest' new_rev' ((length new_rev' - 1)%nat :: map_rev)
  end.

Definition delete_duplicate_outputs (t : table) : res (table * list nat) :=
  match t with
  | [] => Err PyIndexError
  | row0 :: rest => Ok (dedup_loop row0 rest [row0] [0%nat])
  end.

(* NormalizationInfo(truth_table) *)
Definition normalize (t : table) : res norm_info :=
  do r1 <- normalize_outputs t;
  let '(perm, t2) := sort_outputs (snd r1) in
  do r3 <- delete_duplicate_outputs t2;
  Ok (mkNorm (fst r1) perm (snd r3) (fst r3)).

(* ---- denormalize ---- *)
(* _undo_outputs_deletion: circuit.outputs[mapped_index] *)
Definition undo_outputs_deletion (ni : norm_info) (c : circuit) : res circuit :=
  do outs <- mapM (fun m => nth_res (outputs c) m) (mapping ni);
  Ok (set_outputs_raw c outs).

(* list assignment  l[i] = x  (the index is always in range here; IndexError otherwise) *)
Fixpoint list_set {A} (l : list A) (i : nat) (x : A) : res (list A) :=
  match l, i with
  | [], _ => Err PyIndexError
  | _ :: r, O => Ok (x :: r)
  | y :: r, S i' => do r' <- list_set r i' x; Ok (y :: r')
  end.

(* _unsort_outputs *)
Definition unsort_outputs (ni : norm_info) (c : circuit) : dbres circuit :=
  if negb (length (permutation ni) =? length (outputs c))%nat then DbErr NotCompatibleWithNormalization else
  dbdo un <- lift (foldM (fun (acc : list label) (ks : nat * nat) =>
                       do o <- nth_res (outputs c) (fst ks); list_set acc (snd ks) o)
                    (enumerate_from 0 (permutation ni)) (map (fun _ => EmptyString) (outputs c)));
  lift (order_outputs c un).

(* _negate_gate *)
Definition negate_gate (c : circuit) (g : label) : res (circuit * label) :=
  let ng := ("not_" ++ g)%string in
  if has_gate c ng then Ok (c, ng)
  else do c' <- emplace_gate c ng NOT [g]; Ok (c', ng).

(* _denormalize_outputs: zip(circuit.outputs, negations); the list of outputs is read once,
   before any NOT gate is added *)
Definition denormalize_outputs (ni : norm_info) (c : circuit) : dbres circuit :=
  if negb (length (outputs c) =? length (negations ni))%nat then DbErr NotCompatibleWithNormalization else
  dbdo r <- lift (foldM (fun (st : circuit * list label) (on : label * bool) =>
                    let '(c1, acc) := st in
                    if snd on then do r <- negate_gate c1 (fst on); Ok (fst r, acc ++ [snd r])
                    else Ok (c1, acc ++ [fst on]))
                 (combine (outputs c) (negations ni)) (c, []));
  DbOk (set_outputs_raw (fst r) (snd r)).

Definition denormalize (ni : norm_info) (c : circuit) : dbres circuit :=
  dbdo c1 <- lift (undo_outputs_deletion ni c);
  dbdo c2 <- unsort_outputs ni c1;
  denormalize_outputs ni c2.

(* ------------------------------------------------------------------ *)
(* CircuitsDatabase (opened) *)
Definition db := dict bytes.

(* _truth_table_to_label *)
Definition row_label (row : list bool) : string :=
  string_of_list_ascii (map (fun b : bool => if b then "1"%char else "0"%char) row).

Fixpoint join_labels (ls : list string) : string :=
  match ls with
  | [] => EmptyString
  | [x] => x
  | x :: r => (x ++ "_" ++ join_labels r)%string
  end.

Definition truth_table_to_label (t : table) : label := join_labels (map row_label t).

Definition get_by_label (d : db) (l : label) : res (option circuit) :=
  match dget d l with
  | None => Ok None
  | Some bs => do c <- decode_circuit bs; Ok (Some c)
  end.

Definition get_by_raw_truth_table (d : db) (t : table) : dbres (option circuit) :=
  dbdo ni <- lift (normalize t);
  dbdo oc <- lift (get_by_label d (truth_table_to_label (norm_table ni)));
  match oc with
  | None => DbOk None
  | Some c => dbdo c' <- denormalize ni c; DbOk (Some c')
  end.

(* add_circuit(circuit, label) with an explicit label *)
Definition add_circuit (d : db) (c : circuit) (l : label) : dbres db :=
  if dmem d l then DbErr CircuitsDatabaseError
  else dbdo bs <- lift (encode_circuit c); DbOk (dset d l bs).

Definition save (d : db) : res bytes := write_binary_dict d.
Definition open (s : bytes) : res db := read_binary_dict s.

(* ---- get_by_raw_truth_table_model ---- *)
Definition table_model := list (list (option bool)).

Definition default_exclusion : list gtype :=
  [INPUT; NOT; LNOT; RNOT; IFF; LIFF; RIFF; ALWAYS_FALSE; ALWAYS_TRUE].

(* circuit.gates_number(exclusion_list) *)
Definition gates_number (c : circuit) (excl : option (list gtype)) : nat :=
  let ex := match excl with Some e => e | None => default_exclusion end in
  length (filter (fun kg : label * gate => negb (existsb (gtype_beq (gtyp (snd kg))) ex)) (gates c)).

Definition defined_table (tm : table_model) : table :=
  map (map (fun v : option bool => match v with Some true => true | _ => false end)) tm.

(* positions (row, column) of the don't-cares, row by row *)
Definition undefined_positions (tm : table_model) : list (nat * nat) :=
  flat_map (fun ir : nat * list (option bool) =>
              flat_map (fun jv : nat * option bool =>
                          match snd jv with None => [(fst ir, fst jv)] | Some _ => [] end)
                       (enumerate_from 0 (snd ir)))
           (enumerate_from 0 tm).

Definition table_set (t : table) (i j : nat) (v : bool) : table :=
  map (fun ir : nat * list bool =>
         if (fst ir =? i)%nat
         then map (fun jb : nat * bool => if (fst jb =? j)%nat then v else snd jb) (enumerate_from 0 (snd ir))
         else snd ir)
      (enumerate_from 0 t).

Definition substitute (t : table) (pos : list (nat * nat)) (vals : list bool) : table :=
  fold_left (fun t pv => table_set t (fst (fst pv)) (snd (fst pv)) (snd pv)) (combine pos vals) t.

(* the loop over itertools.product((False, True), repeat=k); the table is mutated in place,
   every substitution overwrites all k positions; `best` is (result, result_size) *)
Fixpoint model_loop (d : db) (t0 : table) (pos : list (nat * nat)) (excl : option (list gtype))
         (subs : list (list bool)) (best : option (circuit * nat)) : dbres (option (circuit * nat)) :=
  match subs with
  | [] => DbOk best
  | s :: rest =>
    dbdo oc <- get_by_raw_truth_table d (substitute t0 pos s);
    match oc with
    | None => model_loop d t0 pos excl rest best
    | Some c =>
      let sz := gates_number c excl in
      match best with
      | None => model_loop d t0 pos excl rest (Some (c, sz))
      | Some (_, bsz) =>
        if (sz <? bsz)%nat then model_loop d t0 pos excl rest (Some (c, sz))
        else model_loop d t0 pos excl rest best
      end
    end
  end.

Definition get_by_raw_truth_table_model (d : db) (tm : table_model) (excl : option (list gtype))
  : dbres (option circuit) :=
  let pos := undefined_positions tm in
  dbdo r <- model_loop d (defined_table tm) pos excl (all_bool_vectors (length pos)) None;
  DbOk (option_map fst r).
