(* The Boolean semantics of a cone: the part of a circuit above a set of leaves that carry
   given Booleans.  `ConeEval c rho l b`: gate l has value b when every label bound in rho
   (the cut leaves) is read from rho and every other gate is computed from its operands with
   the denotation Den.den of its type.  It is the specification of the pattern simulation
   (bit i of a pattern = value under the i-th leaf assignment) and of the step validator. *)
Require Import Cirbo.Model.Base Cirbo.Model.Gate Cirbo.Model.Den Cirbo.Model.Circuit.
Require Import Cirbo.Generated.PatternOps.

Inductive ConeEval (c : circuit) (rho : dict bool) : label -> bool -> Prop :=
| CELeaf l b : dget rho l = Some b -> ConeEval c rho l b
| CEGate l g bs b :
    dget rho l = None -> dget (gates c) l = Some g ->
    Forall2 (ConeEval c rho) (gops g) bs ->
    den (gtyp g) bs = Some b ->
    ConeEval c rho l b.

Section ConeEvalInd.
  Variables (c : circuit) (rho : dict bool) (P : label -> bool -> Prop).
  Hypothesis Hleaf : forall l b, dget rho l = Some b -> P l b.
  Hypothesis Hgate : forall l g bs b,
      dget rho l = None -> dget (gates c) l = Some g ->
      Forall2 (ConeEval c rho) (gops g) bs -> Forall2 P (gops g) bs ->
      den (gtyp g) bs = Some b -> P l b.

  Fixpoint ConeEval_ind2 l b (H : ConeEval c rho l b) {struct H} : P l b :=
    match H in ConeEval _ _ l b return P l b with
    | CELeaf _ _ l b Hl => Hleaf l b Hl
    | CEGate _ _ l g bs b Hl Hg Hops Hd =>
      Hgate l g bs b Hl Hg Hops
        ((fix F ls bs (H2 : Forall2 (ConeEval c rho) ls bs) {struct H2} : Forall2 P ls bs :=
            match H2 in Forall2 _ ls bs return Forall2 P ls bs with
            | Forall2_nil _ => Forall2_nil _
            | Forall2_cons x y Hxy Hr => Forall2_cons x y (ConeEval_ind2 x y Hxy) (F _ _ Hr)
            end) (gops g) bs Hops) Hd
    end.
End ConeEvalInd.

(* the i-th leaf assignment of the pattern simulation: the j-th leaf carries bit j of i *)
Definition row_assign (leaves : list label) (i : N) : dict bool :=
  combine leaves (map (N.testbit i) (nrange (N.of_nat (length leaves)))).
