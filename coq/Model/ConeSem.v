(* The Boolean semantics of a cone: the part of a circuit above a set of leaves that carry
   given Booleans.  `ConeEval c rho l b`: gate l has value b when every label bound in rho
   (the cut leaves) is read from rho and every other gate is computed from its operands with
   the denotation Den.den of its type.  It is the specification of the pattern simulation
   (bit i of a pattern = value under the i-th leaf assignment) and of the step validator. *)
Require Import Cirbo.Model.Base Cirbo.Model.Gate Cirbo.Model.Den Cirbo.Model.Circuit.
Require Import Cirbo.Generated.PatternOps.

Inductive ConeEval (c : circuit) (rho : dict bool) : label -> bool -> Prop :=
| CELeaf l b : dget rho l = Some b -> ConeEval c rho l b
| CEGate l g bs b :
    dget rho l = None -> dget (gates c) l = Some g ->
    Forall2 (ConeEval c rho) (gops g) bs ->
    den (gtyp g) bs = Some b ->
    ConeEval c rho l b.

Section ConeEvalInd.
  Variables (c : circuit) (rho : dict bool) (P : label -> bool -> Prop).
  Hypothesis Hleaf : forall l b, dget rho l = Some b -> P l b.
  Hypothesis Hgate : forall l g bs b,
      dget rho l = None -> dget (gates c) l = Some g ->
      Forall2 (ConeEval c rho) (gops g) bs -> Forall2 P (gops g) bs ->
      den (gtyp g) bs = Some b -> P l b.

  Fixpoint ConeEval_ind2 l b (H : ConeEval c rho l b) {struct H} : P l b :=
    match H in ConeEval _ _ l b return P l b with
    | CELeaf _ _ l b Hl => Hleaf l b Hl
    | CEGate _ _ l g bs b Hl Hg Hops Hd =>
      Hgate l g bs b Hl Hg Hops
        ((fix F ls bs (H2 : Forall2 (ConeEval c rho) ls bs) {struct H2} : Forall2 P ls bs :=
            match H2 in Forall2 _ ls bs return Forall2 P ls bs with
            | Forall2_nil _ => Forall2_nil _
            | Forall2_cons x y Hxy Hr => Forall2_cons x y (ConeEval_ind2 x y Hxy) (F _ _ Hr)
            end) (gops g) bs Hops) Hd
    end.
End ConeEvalInd.

(* the i-th leaf assignment of the pattern simulation: the j-th leaf carries bit j of i *)
Definition row_assign (leaves : list label) (i : N) : dict bool :=
  combine leaves (map (N.testbit i) (nrange (N.of_nat (length leaves)))).

(* ---- side conditions of the pattern simulation (hypotheses of the truth-table theorem) ----
   eval_pattern reads exactly one operand of a NOT gate, the first two operands of the four
   comparison types, and all (at least two) operands of the six n-ary types; it has no case
   for the other eight types. *)
Definition pattern_supported (t : gtype) : bool :=
  match t with
  | NOT | AND | NAND | OR | NOR | XOR | NXOR | GEQ | LT | LEQ | GT => true
  | _ => false
  end.

(* fewer operands than this raise IndexError *)
Definition pattern_min_operands (t : gtype) : nat :=
  match t with NOT => 1 | _ => 2 end.

(* k operands are exactly what eval_pattern reads for type t *)
Definition pattern_arity_ok (t : gtype) (k : nat) : bool :=
  match t with
  | NOT => Nat.eqb k 1
  | GEQ | LT | LEQ | GT => Nat.eqb k 2
  | AND | NAND | OR | NOR | XOR | NXOR => Nat.leb 2 k
  | _ => false
  end.

Definition arity_okb (g : gate) : bool := pattern_arity_ok (gtyp g) (length (gops g)).

(* nodes is a topological order of a cone over leaves: every non-leaf node has a gate of a
   supported type with the operand count eval_pattern reads, and each of its operands is a
   leaf or an earlier node (so that the defaultdict never supplies the default 0) *)
Fixpoint cone_okb (c : circuit) (leaves seen nodes : list label) : bool :=
  match nodes with
  | [] => true
  | n :: rest =>
    if memb n leaves then cone_okb c leaves seen rest else
    match dget (gates c) n with
    | None => false
    | Some g =>
      arity_okb g && forallb (fun o => memb o leaves || memb o seen) (gops g)
      && cone_okb c leaves (n :: seen) rest
    end
  end.
