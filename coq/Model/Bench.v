(* Character-level executable model of the bench printer and parser:
     cirbo/core/circuit/circuit.py   format_circuit, save_to_file, from_bench_string, from_bench_file, __eq__
     cirbo/core/circuit/gate.py      format_gate            (regenerated: Generated/BenchDispatch.v)
     cirbo/core/parser/abstract.py   AbstractParser.convert
     cirbo/core/parser/bench.py      AbstractBenchParser / BenchToCircuit
   Text is a Coq [string] (a sequence of 8-bit characters); the model is meant for ASCII text
   (str.upper is modelled on a-z only).  Python's str methods are modelled exactly as the code
   uses them: find of a one-character needle, slicing s[:i] / s[i:] / s[i:j], strip(chars),
   upper, startswith, split(","), iteration of a text stream by lines. *)
Require Import Cirbo.Model.Base Cirbo.Model.Gate Cirbo.Model.Den Cirbo.Model.Circuit.
Require Import Cirbo.Generated.GateTypes Cirbo.Generated.BenchDispatch.

(* ------------------------------------------------------------------ characters *)
Definition ch_nl : ascii := ascii_of_nat 10.
Definition ch_cr : ascii := ascii_of_nat 13.
Definition ch_sp : ascii := " "%char.
Definition ch_eq : ascii := "="%char.
Definition ch_lb : ascii := "("%char.
Definition ch_rb : ascii := ")"%char.
Definition ch_comma : ascii := ","%char.
Definition NL : string := String ch_nl "".

Definition amem (a : ascii) (cs : list ascii) : bool := existsb (Ascii.eqb a) cs.

(* ------------------------------------------------------------------ str methods *)
(* ch in s *)
Fixpoint has_char (ch : ascii) (s : string) : bool :=
  match s with
  | EmptyString => false
  | String a r => Ascii.eqb a ch || has_char ch r
  end.

(* all(p(ch) for ch in s) *)
Fixpoint all_chars (p : ascii -> bool) (s : string) : bool :=
  match s with
  | EmptyString => true
  | String a r => p a && all_chars p r
  end.

(* s.find(ch) for a one-character needle; None is -1 *)
Fixpoint find_char (ch : ascii) (s : string) : option nat :=
  match s with
  | EmptyString => None
  | String a r => if Ascii.eqb a ch then Some O else option_map S (find_char ch r)
  end.

(* s[:n] and s[n:] for n >= 0 *)
Fixpoint take (n : nat) (s : string) : string :=
  match n, s with
  | S n', String a r => String a (take n' r)
  | _, _ => EmptyString
  end.
Fixpoint drop (n : nat) (s : string) : string :=
  match n, s with
  | S n', String _ r => drop n' r
  | _, _ => s
  end.
(* s[a:b] for 0 <= a, 0 <= b (empty when b <= a) *)
Definition slice (a b : nat) (s : string) : string := take (b - a) (drop a s).

(* s.lstrip(cs), s.rstrip(cs), s.strip(cs) *)
Fixpoint lstrip (cs : list ascii) (s : string) : string :=
  match s with
  | EmptyString => EmptyString
  | String a r => if amem a cs then lstrip cs r else s
  end.
Fixpoint rstrip (cs : list ascii) (s : string) : string :=
  match s with
  | EmptyString => EmptyString
  | String a r =>
    match rstrip cs r with
    | EmptyString => if amem a cs then EmptyString else String a EmptyString
    | r' => String a r'
    end
  end.
Definition strip (cs : list ascii) (s : string) : string := lstrip cs (rstrip cs s).

(* str.upper on ASCII *)
Definition upper_char (a : ascii) : ascii :=
  let n := nat_of_ascii a in
  if (97 <=? n)%nat && (n <=? 122)%nat then ascii_of_nat (n - 32) else a.
Fixpoint upper (s : string) : string :=
  match s with
  | EmptyString => EmptyString
  | String a r => String (upper_char a) (upper r)
  end.

(* s.startswith(p) *)
Definition startswith (p s : string) : bool := String.prefix p s.

(* s.split(ch): always at least one piece *)
Fixpoint split2 (ch : ascii) (s : string) : string * list string :=
  match s with
  | EmptyString => (EmptyString, [])
  | String a r =>
    let '(h, t) := split2 ch r in
    if Ascii.eqb a ch then (EmptyString, h :: t) else (String a h, t)
  end.
Definition split_char (ch : ascii) (s : string) : list string :=
  let '(h, t) := split2 ch s in h :: t.

(* iteration of io.StringIO(s) / of a text file: lines keep their "\n"; a last line without
   "\n" is yielded when non-empty *)
Fixpoint lines (s : string) : list string :=
  match s with
  | EmptyString => []
  | String a r =>
    if Ascii.eqb a ch_nl then NL :: lines r
    else match lines r with
         | [] => [String a EmptyString]
         | h :: t => String a h :: t
         end
  end.

(* what reading a file in text mode (newline=None) does: "\r\n" and "\r" become "\n" *)
Fixpoint universal_newlines (s : string) : string :=
  match s with
  | EmptyString => EmptyString
  | String a r =>
    if Ascii.eqb a ch_cr then
      String ch_nl (match r with
                    | String b r' => if Ascii.eqb b ch_nl then universal_newlines r' else universal_newlines r
                    | EmptyString => EmptyString
                    end)
    else String a (universal_newlines r)
  end.

(* ------------------------------------------------------------------ the printer *)
(* Circuit.format_circuit *)
Definition format_input (l : label) : string := ("INPUT(" ++ l ++ ")")%string.
Definition format_output (l : label) : string := ("OUTPUT(" ++ l ++ ")")%string.

Definition non_input_gates (c : circuit) : list (label * gate) :=
  filter (fun kg => negb (gtype_beq (gtyp (snd kg)) INPUT)) (gates c).

Definition format_circuit (c : circuit) : string :=
  let input_str := String.concat NL (map format_input (inputs c)) in
  let gates_str := String.concat NL (map (fun kg => format_gate (fst kg) (snd kg)) (non_input_gates c)) in
  let output_str := String.concat NL (map format_output (outputs c)) in
  (input_str ++ NL ++ NL ++ gates_str ++ NL ++ NL ++ output_str)%string.

(* ------------------------------------------------------------------ the parser *)
Fixpoint lookup_processing (tbl : list (string * handler)) (key : string) : option handler :=
  match tbl with
  | [] => None
  | (k, h) :: rest => if String.eqb key k then Some h else lookup_processing rest key
  end.

(* does  handler(out, *args)  bind?  (TypeError otherwise) *)
Definition handler_accepts (h : handler) (n : nat) : bool :=
  if hvarargs h then (hnamed h <=? n)%nat else (n =? hnamed h)%nat.

(* self._processings[key](out, *args); a KeyError inside the try block becomes ValueError *)
Definition call_handler (c : circuit) (key : string) (out : label) (args : list label) (in_try : bool)
  : res circuit :=
  match lookup_processing processings key with
  | None => Err (if in_try then PyValueError else PyKeyError)
  | Some h =>
    if handler_accepts h (List.length args)
    then Ok (emplace_gate_raw c out (htype h) args)        (* _add_gate -> Circuit._emplace_gate *)
    else Err PyTypeError
  end.

(* line == '' or line == '\n' or line[0] == '#' *)
Definition is_skip_line (line : string) : bool :=
  match line with
  | EmptyString => true
  | String a _ => String.eqb line NL || Ascii.eqb a comment_char
  end.

Definition is_input_line (line : string) : bool :=
  startswith input_kw (upper line) && (negb input_eq_guard || negb (has_char ch_eq line)).
Definition is_output_line (line : string) : bool :=
  startswith output_kw (upper line) && (negb output_eq_guard || negb (has_char ch_eq line)).

(* BenchToCircuit._process_input_gate / _process_output_gate *)
Definition process_input_gate (c : circuit) (line : string) : circuit :=
  emplace_gate_raw c (strip input_strip (drop input_cut line)) INPUT [].
Definition process_output_gate (c : circuit) (line : string) : circuit :=
  set_outputs_raw c (outputs c ++ [strip output_strip (drop output_cut line)]).

(* _parse_name_gate *)
Definition parse_name_gate (line : string) : res (string * string) :=
  match find_char ch_eq line with
  | None => Err PyValueError
  | Some i => Ok (strip [ch_sp] (take i line), strip [ch_sp] (drop (S i) line))
  end.

(* _parse_operator_gate *)
Definition parse_operator_gate (body : string) : res (string * list string) :=
  match find_char ch_lb body, find_char ch_rb body with
  | Some l, Some r =>
    Ok (upper (strip [ch_sp] (take l body)),
        map (strip [ch_sp]) (split_char ch_comma (strip [ch_sp] (slice (S l) r body))))
  | _, _ => Err PyValueError
  end.

(* _process_operator_gate *)
Definition process_operator_gate (c : circuit) (line : string) : res circuit :=
  do nb <- parse_name_gate line;
  let '(out, body) := nb in
  if String.eqb (upper (take vdd_prefix_len body)) VDD_NAME
  then call_handler c VDD_NAME out [] false
  else
    do oo <- parse_operator_gate body;
    let '(operator, operands) := oo in
    if (String.eqb operator (gname ALWAYS_FALSE) || String.eqb operator (gname ALWAYS_TRUE))
       && (negb const_keeps_operands || labels_eqb operands [EmptyString])
    then call_handler c operator out [] true
    else call_handler c operator out operands true.

(* _process_line *)
Definition process_line (c : circuit) (line : string) : res circuit :=
  if is_skip_line line then Ok c
  else if is_input_line line then Ok (process_input_gate c line)
  else if is_output_line line then Ok (process_output_gate c line)
  else process_operator_gate c line.

(* _eof: for gate in gates.values(): check_gates_exist(gate.operands, circuit) *)
Definition eof (c : circuit) : res circuit :=
  do _ <- mapM (fun kg => check_gates_exist (gops (snd kg)) c) (gates c);
  Ok c.

(* AbstractParser.convert driven by BenchToCircuit.convert_to_circuit on a fresh parser *)
Definition parse_lines (ls : list string) (c : circuit) : res circuit := foldM process_line ls c.
Definition parse_bench (text : string) : res circuit :=
  do c <- parse_lines (lines text) empty_circuit;
  eof c.

(* Circuit.from_bench_string(text) *)
Definition from_bench_string := parse_bench.
(* Circuit.from_bench_file(p) where p holds text (what a text-mode read yields is
   universal_newlines of the content; write_text on POSIX writes "\n" unchanged) *)
Definition from_bench_file_content (content : string) : res circuit :=
  parse_bench (universal_newlines content).

(* ------------------------------------------------------------------ Circuit.__eq__ *)
(* dict equality of the gate maps (same length, every key of a is in b with an equal gate),
   then outputs, then inputs; blocks and the users index are not compared *)
Definition gates_eq_py (a b : dict gate) : bool :=
  Nat.eqb (List.length a) (List.length b)
  && forallb (fun kg => match dget b (fst kg) with
                        | Some g => gate_eqb (snd kg) g
                        | None => false
                        end) a.
Definition circuit_eq_py (a b : circuit) : bool :=
  gates_eq_py (gates a) (gates b) && labels_eqb (outputs a) (outputs b) && labels_eqb (inputs a) (inputs b).

(* the same relation as a proposition: what the round-trip theorem concludes *)
Definition same_circuit (a b : circuit) : Prop :=
  (forall l, dget (gates a) l = dget (gates b) l) /\ outputs a = outputs b /\ inputs a = inputs b.

(* ------------------------------------------------------------------ bench identifiers *)
(* the characters the proof needs to keep out of labels: the token separators of the format *)
Definition label_char_ok (a : ascii) : bool :=
  negb (amem a [ch_sp; ch_lb; ch_rb; ch_comma; ch_eq; ch_nl]).
(* non-empty, separator-free, not starting with the comment character *)
Definition label_ok (l : string) : bool :=
  match l with
  | EmptyString => false
  | String a _ => negb (Ascii.eqb a comment_char) && all_chars label_char_ok l
  end.

(* hypotheses of the round trip *)
Definition gate_labels_ok (c : circuit) : Prop :=
  forall l g, In (l, g) (gates c) -> label_ok l = true /\ Forall (fun o => label_ok o = true) (gops g).
Definition io_labels_ok (c : circuit) : Prop :=
  Forall (fun l => label_ok l = true) (inputs c) /\ Forall (fun l => label_ok l = true) (outputs c).
Definition labels_ok (c : circuit) : Prop := gate_labels_ok c /\ io_labels_ok c.

(* every operand names a gate *)
Definition ops_exist (c : circuit) : Prop :=
  forall l g o, In (l, g) (gates c) -> In o (gops g) -> has_gate c o = true.

(* the input list is the list of INPUT gates (which carry no operands) *)
Definition inputs_consistent (c : circuit) : Prop :=
  (forall l, In l (inputs c) -> dget (gates c) l = Some (mkGate INPUT [])) /\
  (forall l g, In (l, g) (gates c) -> gtyp g = INPUT -> In l (inputs c)).

(* every non-input gate has an operand count its operator accepts (Den.den_accepts: one for
   NOT/IFF, two for the binary types, two or more for AND/OR/XOR/NAND/NOR/NXOR, any for constants) *)
Definition arities_ok (c : circuit) : Prop :=
  forall l g, In (l, g) (gates c) -> gtyp g <> INPUT ->
              den_accepts (gtyp g) (List.length (gops g)) = true.

(* the gate map is a dict: keys are unique *)
Definition keys_unique (c : circuit) : Prop := NoDup (dkeys (gates c)).

Definition bench_ok (c : circuit) : Prop :=
  labels_ok c /\ ops_exist c /\ inputs_consistent c /\ arities_ok c /\ keys_unique c.

(* the same hypotheses as one executable test (sound for bench_ok: Proofs/BenchRoundtrip.v) *)
Definition bench_okb (c : circuit) : bool :=
  forallb (fun kg => label_ok (fst kg) && forallb label_ok (gops (snd kg))) (gates c)
  && forallb label_ok (inputs c) && forallb label_ok (outputs c)
  && forallb (fun kg => forallb (has_gate c) (gops (snd kg))) (gates c)
  && forallb (fun l => match dget (gates c) l with
                       | Some g => gate_eqb g (mkGate INPUT [])
                       | None => false
                       end) (inputs c)
  && forallb (fun kg => negb (gtype_beq (gtyp (snd kg)) INPUT) || memb (fst kg) (inputs c)) (gates c)
  && forallb (fun kg => gtype_beq (gtyp (snd kg)) INPUT
                        || den_accepts (gtyp (snd kg)) (List.length (gops (snd kg)))) (gates c)
  && nodupb (dkeys (gates c)).

(* for the trip through a text file: no carriage return in labels (a text-mode read turns it
   into a newline) *)
Definition no_cr (l : string) : Prop := has_char ch_cr l = false.
Definition labels_no_cr (c : circuit) : Prop :=
  (forall l g, In (l, g) (gates c) -> no_cr l /\ Forall no_cr (gops g))
  /\ Forall no_cr (inputs c) /\ Forall no_cr (outputs c).

(* ------------------------------------------------------------------ correspondence entry points *)
Definition res_circuit_eqb (a b : res circuit) : bool :=
  match a, b with
  | Ok x, Ok y =>
    labels_eqb (inputs x) (inputs y) && labels_eqb (outputs x) (outputs y)
    && all_eqb (fun p q => leqb (fst p) (fst q) && gate_eqb (snd p) (snd q)) (gates x) (gates y)
    && all_eqb (fun p q => leqb (fst p) (fst q) && labels_eqb (snd p) (snd q)) (users x) (users y)
    && match blocks x, blocks y with [], [] => true | _, _ => false end
  | Err e, Err f => err_beq e f
  | _, _ => false
  end.

(* text assembled from printable pieces and character codes (case files) *)
Definition chr (n : nat) : string := String (ascii_of_nat n) EmptyString.
Definition cat (l : list string) : string := String.concat EmptyString l.

(* format_circuit() byte for byte; (c1 == c2) as computed by Circuit.__eq__ *)
Definition check_format_case (x : circuit * string) : bool :=
  String.eqb (format_circuit (fst x)) (snd x).
Definition check_eq_case (x : circuit * circuit * bool) : bool :=
  let '(a, b, r) := x in Bool.eqb (circuit_eq_py a b) r.
Definition check_okb_case (x : circuit * bool) : bool := Bool.eqb (bench_okb (fst x)) (snd x).
(* from_bench_string(text): full state incl. gate-map order and users index, or the error kind;
   the flag says whether the text went through a file (universal newlines) *)
Definition check_parse_case (x : string * bool * res circuit) : bool :=
  let '(text, via_file, r) := x in
  res_circuit_eqb (if via_file then from_bench_file_content text else parse_bench text) r.

(* the regenerated tables against the live Python objects: _processings (key, type of the gate the
   handler builds, named operands, *args), VDD_NAME / BUFF_NAME; Gate.format_gate per type *)
Definition check_dispatch_case (x : list (string * gtype * nat * bool) * string * string) : bool :=
  let '(tbl, vdd, buff) := x in
  String.eqb vdd VDD_NAME && String.eqb buff BUFF_NAME
  && all_eqb (fun a b =>
       let '(k, t, n, v) := a in
       let '(k2, t2, n2, v2) := b in
       String.eqb k k2 && gtype_beq t t2 && Nat.eqb n n2 && Bool.eqb v v2)
     tbl (map (fun kh => (fst kh, htype (snd kh), hnamed (snd kh), hvarargs (snd kh))) processings).
Definition check_format_gate_case (x : string * gtype * list label * string) : bool :=
  let '(l, t, ops, text) := x in String.eqb (format_gate l (mkGate t ops)) text.
