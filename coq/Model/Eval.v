(* The evaluation entry points of Circuit. *)
Require Import Cirbo.Model.Base Cirbo.Model.Gate Cirbo.Model.Circuit Cirbo.Model.Traverse.
Require Import Cirbo.Generated.Operators Cirbo.Generated.GateTypes.

Definition assignment := dict st.

Definition init_assignment (c : circuit) (a : assignment) : assignment :=
  fold_left (fun d i => dsetdefault d i U) (inputs c) a.

Definition lookup_vals (d : assignment) (ops : list label) : res (list st) :=
  mapM (fun op => match dget d op with Some v => Ok v | None => Err PyKeyError end) ops.

Definition eval_gate (d : assignment) (g : gate) : res st :=
  (* cur_gate.operator is looked up first (INPUT has none), then the operand values *)
  if gtype_beq (gtyp g) INPUT then Err GateTypeNoOperatorError else
  do vs <- lookup_vals d (gops g);
  operator_of (gtyp g) vs.

(* evaluate_full_circuit *)
Definition evaluate_full_circuit (c : circuit) (a : assignment) : res assignment :=
  let d0 := init_assignment c a in
  do order <- top_sort true c;
  foldM (fun d l =>
           do g <- get_gate c l;
           if gtype_beq (gtyp g) INPUT then Ok d else
           do v <- eval_gate d g; Ok (dset d l v)) order d0.

(* evaluate_circuit: explicit stack *)
Fixpoint eval_stack_loop (fuel : nat) (c : circuit) (d : assignment) (stack : list label)
  : res assignment :=
  match fuel with
  | O => Err OutOfFuel
  | S fuel' =>
    match pop_last stack with
    | None => Ok d
    | Some (cur, rest) =>
      do g <- get_gate c cur;
      let pushed := filter (fun op => negb (dmem d op)) (gops g) in
      match pushed with
      | [] => do v <- eval_gate d g; eval_stack_loop fuel' c (dset d cur v) rest
      | _ => eval_stack_loop fuel' c d (stack ++ pushed)
      end
    end
  end.

Definition eval_fuel (c : circuit) (outs : list label) : nat :=
  2 * (length outs + sum_arity c) + 1.

Definition evaluate_circuit_fuel (fuel : nat) (c : circuit) (a : assignment) (outs : option (list label))
  : res assignment :=
  let d0 := init_assignment c a in
  let outs' := match outs with Some o => o | None => outputs c end in
  let stack := filter (fun o => negb (memb o (inputs c))) outs' in
  do d <- eval_stack_loop fuel c d0 stack;
  Ok (fold_left (fun d l => dsetdefault d l U) (dkeys (gates c)) d).

Definition evaluate_circuit (c : circuit) (a : assignment) (outs : option (list label)) :=
  evaluate_circuit_fuel
    (eval_fuel c (match outs with Some o => o | None => outputs c end)) c a outs.

Definition evaluate_circuit_outputs (c : circuit) (a : assignment) : res assignment :=
  do d <- evaluate_circuit c a None;
  (* dict comprehension over outputs: a repeated output keeps its first position *)
  foldM (fun acc o => match dget d o with Some v => Ok (dset acc o v) | None => Err PyKeyError end)
        (outputs c) [].

(* evaluate(inputs): dict_inputs[input_i] = inputs[i]; IndexError if too short *)
Fixpoint zip_inputs (ins : list label) (vals : list st) (acc : assignment) : res assignment :=
  match ins, vals with
  | [], _ => Ok acc
  | i :: ins', v :: vals' => zip_inputs ins' vals' (dset acc i v)
  | _ :: _, [] => Err PyIndexError
  end.

Definition evaluate (c : circuit) (vals : list st) : res (list st) :=
  do a <- zip_inputs (inputs c) vals [];
  do ans <- evaluate_circuit_outputs c a;
  mapM (fun o => match dget ans o with Some v => Ok v | None => Err PyKeyError end) (outputs c).

Definition output_at_index (c : circuit) (i : nat) : res label :=
  match nth_error (outputs c) i with Some l => Ok l | None => Err GateDoesntExistError end.

Definition evaluate_at (c : circuit) (vals : list st) (i : nat) : res st :=
  do a <- zip_inputs (inputs c) vals [];
  do o <- output_at_index c i;
  do d <- evaluate_circuit c a (Some [o]);
  match dget d o with Some v => Ok v | None => Err PyKeyError end.

(* itertools.product((False, True), repeat=n): big-endian enumeration *)
Fixpoint all_bool_vectors (n : nat) : list (list bool) :=
  match n with
  | O => [[]]
  | S n' => map (cons false) (all_bool_vectors n') ++ map (cons true) (all_bool_vectors n')
  end.

(* get_truth_table: [list(i) for i in zip( *(evaluate(x) for x in product) )] *)
Definition get_truth_table (c : circuit) : res (list (list st)) :=
  do rows <- mapM (fun x => evaluate c (map inj x)) (all_bool_vectors (length (inputs c)));
  Ok (map (fun j => map (fun r => nth j r U) rows) (seq 0 (length (outputs c)))).

(* get_gates_truth_table: defaultdict(list), keys in order of first appearance *)
Definition get_gates_truth_table (c : circuit) : res (dict (list st)) :=
  foldM (fun (acc : dict (list st)) x =>
           do a <- zip_inputs (inputs c) (map inj x) [];
           do full <- evaluate_full_circuit c a;
           Ok (fold_left (fun acc kv =>
                 match dget acc (fst kv) with
                 | Some l => dset acc (fst kv) (l ++ [snd kv])
                 | None => dset acc (fst kv) [snd kv]
                 end) full acc))
        (all_bool_vectors (length (inputs c))) [].
