(* cirbo/synthesis/generation/arithmetics/summation.py: the bit-count generators

     add_sum_n_bits (XAIG: _add_sum_n_bits, the MDFA / Stockmeyer scheduler; AIG: _add_sum_n_bits_aig),
     add_sum_n_bits_easy, add_sum_pow2_m1, add_sum_two_numbers_with_shift,

   as builder programs over the regenerated cells (Generated/ArithCells.v).  add_sum_two_numbers
   itself is Model/ArithSum2.v (C09).

   BASIS.  The Python parameter `basis` is modelled as the value actually passed ([basis_arg]:
   an enum member or a string in any letter case) together with the resolution the code
   performs, `GenerationBasis(basis.upper())` ([resolve_basis]; ValueError for any other
   string).  This file models the REPAIRED code:
     fixes/D6.patch  add_sum_pow2_m1 resolves the basis and finishes with add_sum2_aig when the
                     resolved basis is AIG (the pinned code always finishes with add_sum2: an XOR);
     fixes/D7.patch  add_sum_two_numbers_with_shift fills range(n, shift) with the constant-false
                     gate (the pinned code fills range(n, shift - n) and returns the placeholder).

   PYTHON LISTS USED AS STACKS.  The scheduling loops only ever read and pop the END of
   now_solo / now_x_xy and append to the END of next_solo / next_x_xy.  Such a list is
   represented REVERSED: the head of the Coq list is the last element of the Python list
   ([l[-1]] is the head, [append] is cons, [now = next] is the identity). *)
Require Import Cirbo.Model.Base Cirbo.Model.Gate Cirbo.Model.Circuit Cirbo.Model.Builder.
Require Import Cirbo.Generated.ArithTables Cirbo.Generated.ArithCells.
Require Import Cirbo.Model.ArithSub Cirbo.Model.ArithSum2.

(* ---- GenerationBasis ------------------------------------------------------------------- *)
Inductive gen_basis : Type := XAIG | AIG.
Inductive basis_arg : Type :=
| BEnum (b : gen_basis)          (* GenerationBasis.XAIG / GenerationBasis.AIG *)
| BStr (s : string).             (* "XAIG", "aig", "Aig", ... or any other string *)

(* str.upper() on ASCII *)
Definition upper_ascii (ch : ascii) : ascii :=
  let n := N_of_ascii ch in
  if (97 <=? n)%N && (n <=? 122)%N then ascii_of_N (n - 32) else ch.
Fixpoint upper (s : string) : string :=
  match s with
  | EmptyString => EmptyString
  | String ch r => String (upper_ascii ch) (upper r)
  end.

(* GenerationBasis(basis.upper()) if isinstance(basis, str) else basis *)
Definition resolve_basis (b : basis_arg) : res gen_basis :=
  match b with
  | BEnum g => Ok g
  | BStr s =>
    let u := upper s in
    if String.eqb u "XAIG" then Ok XAIG
    else if String.eqb u "AIG" then Ok AIG
    else Err PyValueError
  end.

(* `a, b, c = <list>` *)
Definition unpack3 {A} (l : list A) : prog (A * A * A) :=
  match l with [x; y; z] => Ret (x, y, z) | _ => Fail PyValueError end.

(* ---- the loops shared by all schedulers (stacks: head = l[-1]) --------------------------- *)
(* while len(now_solo) > 1:
       xy = add_gate_from_tt(now_solo[-1], now_solo[-2], "0110")
       now_x_xy.append((now_solo[-1], xy)); pop twice *)
Fixpoint pair_up (solo : list label) (xxy : list (label * label))
  : prog (list label * list (label * label)) :=
  match solo with
  | a :: b :: rest => bdo xy <- gate_tt tt_xor a b; pair_up rest ((a, xy) :: xxy)
  | _ => Ret (solo, xxy)
  end.

(* while len(now_solo) > 2: x, y = cell3(now_solo[-1:-4:-1]); pop 3; now_solo.append(x); next.append(y)
   if/while len(now_solo) > 1: x, y = cell2(now_solo[-1:-3:-1]); pop 2; now_solo.append(x); next.append(y)
   the stack is top :: rest; returns (now_solo[0], next) *)
Fixpoint solo_loop (cell3 cell2 : list label -> prog (list label)) (top : label) (rest next : list label)
  : prog (label * list label) :=
  match rest with
  | b :: c :: rest' =>
    bdo r <- cell3 [top; b; c];
    bdo xy <- unpack2 r;
    solo_loop cell3 cell2 (fst xy) rest' (snd xy :: next)
  | [b] =>
    bdo r <- cell2 [top; b];
    bdo xy <- unpack2 r;
    Ret (fst xy, snd xy :: next)
  | [] => Ret (top, next)
  end.

(* one level of add_sum_n_bits_easy / _add_sum_n_bits_aig, and the loop over the levels:
   while len(now) > 0: next = []; <solo_loop>; res.append(now[0]); now = next *)
Fixpoint level_loop (fuel : nat) (cell3 cell2 : list label -> prog (list label)) (now : list label)
  : prog (list label) :=
  match now with
  | [] => Ret []
  | top :: rest =>
    match fuel with
    | O => Fail OutOfFuel
    | S f =>
      bdo r <- solo_loop cell3 cell2 top rest [];
      bdo rs <- level_loop f cell3 cell2 (snd r);
      Ret (fst r :: rs)
    end
  end.

(* ---- the XAIG scheduler: one level ---------------------------------------------------------- *)
(* while len(now_x_xy) > 1:  add_mdfa with now_solo[-1] when there is one, else add_simplified_mdfa *)
Fixpoint mdfa_loop (xxy : list (label * label)) (solo : list label) (next_xxy : list (label * label))
  : prog (list (label * label) * list label * list (label * label)) :=
  match xxy with
  | (x1, xy1) :: (x2, xy2) :: rest =>
    match solo with
    | z :: solo' =>
      bdo r <- add_mdfa [z; x1; xy1; x2; xy2];
      bdo t <- unpack3 r;
      let '(z', a, b) := t in
      mdfa_loop rest (z' :: solo') ((a, b) :: next_xxy)
    | [] =>
      bdo r <- add_simplified_mdfa [x1; xy1; x2; xy2];
      bdo t <- unpack3 r;
      let '(z', a, b) := t in
      mdfa_loop rest [z'] ((a, b) :: next_xxy)
    end
  | _ => Ret (xxy, solo, next_xxy)
  end.

(* if len(now_x_xy) == 1: Stockmeyer block with now_solo[-1], or (no solo) the pair alone:
   now_solo.append(xy); next_solo.append(GT(x, xy)) *)
Definition last_pair (xxy : list (label * label)) (solo : list label)
  : prog (list label * list label) :=
  match xxy with
  | [(x, xy)] =>
    match solo with
    | z :: solo' =>
      bdo r <- add_stockmeyer_block [z; x; xy];
      bdo wy <- unpack2 r;
      Ret (fst wy :: solo', [snd wy])
    | [] =>
      bdo g <- gate_tt tt_gt x xy;
      Ret ([xy], [g])
    end
  | _ => Ret (solo, [])
  end.

(* the body of `while len(now_solo) > 0 or len(now_x_xy) > 0` after next_* = []:
   returns (now_solo[0], next_solo, next_x_xy) *)
Definition xaig_level (solo : list label) (xxy : list (label * label))
  : prog (label * list label * list (label * label)) :=
  bdo st <- mdfa_loop xxy solo [];
  let '(xxy1, solo1, next_xxy) := st in
  bdo st2 <- last_pair xxy1 solo1;
  let '(solo2, next_solo) := st2 in
  match solo2 with
  | [] => Fail PyIndexError                         (* now_solo[0] *)
  | top :: rest =>
    bdo r <- solo_loop add_sum3 add_sum2 top rest next_solo;
    Ret (fst r, snd r, next_xxy)
  end.

Fixpoint xaig_loop (fuel : nat) (solo : list label) (xxy : list (label * label)) : prog (list label) :=
  match solo, xxy with
  | [], [] => Ret []
  | _, _ =>
    match fuel with
    | O => Fail OutOfFuel
    | S f =>
      bdo st <- xaig_level solo xxy;
      let '(r, next_solo, next_xxy) := st in
      bdo rs <- xaig_loop f next_solo next_xxy;
      Ret (r :: rs)
    end
  end.

(* _add_sum_n_bits: every level emits one result bit, and a sum of n bits has at most n bits *)
Definition add_sum_n_bits_xaig (input_labels : list label) : prog (list label) :=
  bdo st <- pair_up (rev input_labels) [];
  xaig_loop (S (length input_labels)) (fst st) (snd st).

(* _add_sum_n_bits_aig *)
Definition add_sum_n_bits_aig (input_labels : list label) : prog (list label) :=
  level_loop (S (length input_labels)) add_sum3_aig add_sum2_aig (rev input_labels).

Definition add_sum_n_bits_resolved (b : gen_basis) (input_labels : list label) : prog (list label) :=
  match b with
  | XAIG => add_sum_n_bits_xaig input_labels
  | AIG => add_sum_n_bits_aig input_labels
  end.

Definition add_sum_n_bits (basis : basis_arg) (big_endian : bool) (input_labels : list label)
  : prog (list label) :=
  let input_labels := rev_if big_endian input_labels in
  bdo b <- ret_res (resolve_basis basis);
  bdo r <- add_sum_n_bits_resolved b input_labels;
  Ret (rev_if big_endian r).

Definition add_sum_n_bits_easy (big_endian : bool) (input_labels : list label) : prog (list label) :=
  let now := rev_if big_endian input_labels in
  bdo r <- level_loop (S (length now)) add_sum3 add_sum2 (rev now);
  Ret (rev_if big_endian r).

(* ---- add_sum_pow2_m1 (repaired, fixes/D6.patch) ---------------------------------------------- *)
(* while len(input_labels) >= i:
       out.append(add_sum_n_bits(circuit, input_labels[0:i], basis=basis))
       input_labels = input_labels[i:]; input_labels.append(out[it][0]); it += 1 *)
Fixpoint block_loop (fuel : nat) (basis : basis_arg) (i : nat) (labels : list label) (out : list (list label))
  : prog (list label * list (list label)) :=
  if (length labels <? i)%nat then Ret (labels, out)
  else match fuel with
       | O => Fail OutOfFuel
       | S f =>
         bdo blk <- add_sum_n_bits basis false (firstn i labels);
         bdo b0 <- nthP blk 0;
         block_loop f basis i (skipn i labels ++ [b0]) (out ++ [blk])
       end.

(* 2**pw - 1 for pw in range(5, 1, -1) *)
Definition pow2_m1_sizes : list nat := [31; 15; 7; 3]%nat.

(* while len(input_labels) > 2: for pw in range(5, 1, -1): <block_loop> *)
Fixpoint blocks_outer (fuel : nat) (basis : basis_arg) (labels : list label) (out : list (list label))
  : prog (list label * list (list label)) :=
  if (length labels <=? 2)%nat then Ret (labels, out)
  else match fuel with
       | O => Fail OutOfFuel
       | S f =>
         bdo st <- foldP (fun st i => block_loop (S (length (fst st))) basis i (fst st) (snd st))
                         pow2_m1_sizes (labels, out);
         blocks_outer f basis (fst st) (snd st)
       end.

(* [list(filter(None, x)) for x in zip_longest( * out)]: column k holds bit k of every block that
   has one; filter(None, .) also drops a label that is the empty string *)
Definition column (k : nat) (out : list (list label)) : list label :=
  flat_map (fun blk => match nth_error blk k with
                       | Some x => if String.eqb x "" then [] else [x]
                       | None => []
                       end) out.
Definition columns (out : list (list label)) : list (list label) :=
  map (fun k => column k out) (seq 0 (fold_right Nat.max 0%nat (map (@length label) out))).

Definition add_sum_pow2_m1 (basis : basis_arg) (big_endian : bool) (input_labels : list label)
  : prog (list (list label)) :=
  match input_labels with
  | [] => Fail PyAssertionError                                     (* assert n > 0 *)
  | [x] => Ret [rev_if big_endian [x]]
  | _ =>
    bdo b <- ret_res (resolve_basis basis);                         (* D6 repair *)
    bdo st <- blocks_outer (S (length input_labels)) basis input_labels [];
    let '(labels, out) := st in
    bdo out <- (match labels with
                | [x; y] =>
                  bdo blk <- (match b with AIG => add_sum2_aig [x; y] | XAIG => add_sum2 [x; y] end);
                  bdo _ <- nthP blk 0;                               (* out[it][0] *)
                  Ret (out ++ [blk])
                | _ => Ret out
                end);
    match columns out with
    | [] => Fail PyIndexError                                       (* out[0] *)
    | c0 :: rest =>
      bdo l <- lastP c0;                                            (* out[0][len(out[0]) - 1] *)
      Ret (map (rev_if big_endian) ([l] :: rest))
    end
  end.

(* ---- add_sum_two_numbers_with_shift (repaired, fixes/D7.patch) ------------------------------- *)
Definition add_sum_two_numbers_with_shift (shift : nat) (input_labels_a input_labels_b : list label)
           (big_endian : bool) : prog (list label) :=
  let a := rev_if big_endian input_labels_a in
  let b := rev_if big_endian input_labels_b in
  let n := length a in
  if (n <=? shift)%nat then
    (* d[i] = a[i] (i < n); d[i] = zero (n <= i < shift); d[i + shift] = b[i] *)
    bdo zs <- (if (shift =? n)%nat then Ret []
               else bdo a0 <- nthP a 0;
                    bdo zero <- gate_tt tt_false a0 a0;
                    Ret (repeat zero (shift - n)));
    Ret (rev_if big_endian (a ++ zs ++ b))
  else
    (* d[i] = a[i] (i < shift); d[i] = res_sum[i - shift] (shift <= i <= max(n, m + shift)) *)
    bdo rs <- add_sum_two_numbers (skipn shift a) b false;
    Ret (rev_if big_endian (firstn shift a ++ rs)).
