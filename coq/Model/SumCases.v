(* Correspondence cases for the summation generators of C07: a host circuit, the uuid counter,
   one call, and the implementation's result (returned labels and levels, full circuit state,
   counter; or the error kind).

   LABELS.  The weighted sums order their work lists by label STRING, so the renaming of the
   uuid labels must preserve the string order: the implementation's 'new_%032x' % j is renamed
   to 'new_%04x' % j (the 28 leading zeros are dropped; j < 65536) on both sides, which keeps the
   order among the new labels and against every label that does not start with "new_". *)
Require Import Cirbo.Model.Base Cirbo.Model.Gate Cirbo.Model.Circuit Cirbo.Model.History
  Cirbo.Model.Builder.
Require Import Cirbo.Generated.ArithTables Cirbo.Generated.ArithCells.
Require Import Cirbo.Model.ArithSub Cirbo.Model.ArithSum2 Cirbo.Model.ArithSumN Cirbo.Model.ArithSumW
  Cirbo.Model.ArithGen.

Definition hexchar (d : N) : ascii :=
  match d with
  | 0 => "0" | 1 => "1" | 2 => "2" | 3 => "3" | 4 => "4" | 5 => "5" | 6 => "6" | 7 => "7"
  | 8 => "8" | 9 => "9" | 10 => "a" | 11 => "b" | 12 => "c" | 13 => "d" | 14 => "e" | _ => "f"
  end%N%char.

Definition hex4 (k : N) : string :=
  String (hexchar ((k / 4096) mod 16)) (String (hexchar ((k / 256) mod 16))
    (String (hexchar ((k / 16) mod 16)) (String (hexchar (k mod 16)) EmptyString))).

Definition hex_label (k : N) : label := ("new_" ++ hex4 k)%string.

Inductive cellname : Type := KSum2 | KSum3 | KStock | KMdfa | KSmdfa | KSum2Aig | KSum3Aig.

Definition run_cell (k : cellname) : list label -> prog (list label) :=
  match k with
  | KSum2 => add_sum2 | KSum3 => add_sum3 | KStock => add_stockmeyer_block | KMdfa => add_mdfa
  | KSmdfa => add_simplified_mdfa | KSum2Aig => add_sum2_aig | KSum3Aig => add_sum3_aig
  end.

Inductive scall : Type :=
| SCell (k : cellname) (xs : list label)
| SNBits (basis : basis_arg) (be : bool) (xs : list label)
| SEasy (be : bool) (xs : list label)
| SPow2 (basis : basis_arg) (be : bool) (xs : list label)
| SWeighted (basis : basis_arg) (inp : list witem)
| SNaive (basis : basis_arg) (inp : list witem)
| SSum2 (a b : list label) (be : bool)
| SShift (shift : nat) (a b : list label) (be : bool).

(* every result as (label lists, levels) *)
Definition run_scall (c : scall) : prog (list (list label) * list N) :=
  match c with
  | SCell k xs => bdo r <- run_cell k xs; Ret ([r], [])
  | SNBits b be xs => bdo r <- add_sum_n_bits b be xs; Ret ([r], [])
  | SEasy be xs => bdo r <- add_sum_n_bits_easy be xs; Ret ([r], [])
  | SPow2 b be xs => bdo r <- add_sum_pow2_m1 b be xs; Ret (r, [])
  | SWeighted b inp => bdo r <- add_sum_n_weighted_bits b inp; Ret ([map snd r], map fst r)
  | SNaive b inp => bdo r <- add_sum_n_weighted_bits_naive b inp; Ret ([map snd r], map fst r)
  | SSum2 a b be => bdo r <- add_sum_two_numbers a b be; Ret ([r], [])
  | SShift sh a b be => bdo r <- add_sum_two_numbers_with_shift sh a b be; Ret ([r], [])
  end.

Definition sum_result : Type := list (list label) * list N * circuit * N.

Definition sum_result_eqb (a b : sum_result) : bool :=
  let '(la, va, ca, ka) := a in
  let '(lb, vb, cb, kb) := b in
  all_eqb labels_eqb la lb && all_eqb N.eqb va vb && circuit_eqb ca cb && N.eqb ka kb.

Definition sum_case : Type := circuit * N * scall * res sum_result.

Definition run_sum_case (host : circuit) (k0 : N) (call : scall) : res sum_result :=
  do r <- run_on hex_label (run_scall call) host k0;
  let '(lv, c, k) := r in Ok (fst lv, snd lv, c, k).

Definition check_sum_case (x : sum_case) : bool :=
  let '(host, k0, call, expected) := x in
  res_eqb sum_result_eqb (run_sum_case host k0 call) expected.

(* the generate_* wrappers *)
Inductive sgcall : Type :=
| GNBits (ins : list label) (basis : basis_arg) (be : bool)
| GWeighted (ins : list label) (weights : list N) (basis : basis_arg)
| GNaive (ins : list label) (weights : list N) (basis : basis_arg).

Definition run_sgcall (k0 : N) (g : sgcall) : res circuit :=
  match g with
  | GNBits ins b be => generate_sum_n_bits hex_label k0 ins b be
  | GWeighted ins ws b => generate_sum_weighted_bits_efficient hex_label k0 ins ws b
  | GNaive ins ws b => generate_sum_weighted_bits_naive hex_label k0 ins ws b
  end.

Definition sgen_case : Type := N * sgcall * res circuit.
Definition check_sgen_case (x : sgen_case) : bool :=
  let '(k0, g, expected) := x in res_eqb circuit_eqb (run_sgcall k0 g) expected.
