(* Builder layer: the arithmetic generators of cirbo/synthesis/generation as programs
   that only ever ADD gates to a host circuit.

   Design decisions (see DESIGN.md section 3 "Builders"; this file is the place where the
   deviation from that sketch is recorded):

   * LABELS ARE STRINGS and the netlist under construction IS a [Circuit.circuit].  The
     design sketch proposed to execute with cheap numeric identifiers and to transport the
     theorems to string labels by an injective renaming.  That needs a second semantics and a
     transport theorem, and it cannot express the gadgets of generation.py, which create gates
     under caller-chosen labels (result_labels).  Working directly on [circuit] makes every
     theorem a statement about [Sem.Eval] of the very structure the rest of the model uses,
     with no renaming in the trusted path.  Cost: one builder step scans the gate map a
     constant number of times, so a run is quadratic in the netlist size; with the short
     labels the harness uses (see [short_label]) a 600-gate divider runs in well under a
     second under vm_compute and a 5 000-gate one in about a minute.  Larger structural sweeps
     should use extraction (DESIGN 5.1).

   * PROGRAMS ARE A DEEP EMBEDDING ([prog], a freer monad).  A generator is an ordinary Gallina
     function returning a [prog A]; [run] interprets it over a state [bstate] = circuit + uuid
     counter.  Because every program is built from six constructors, the frame facts are proved
     ONCE, by induction on [prog], for all generators at the same time (Proofs/BuilderFacts.v):
       - extension ([run_ext]):  run p s = Ok (r, s')  ->  ext (bc s) (bc s')
         where [ext] is "reachable by emplace_gate of non-INPUT gates and mark_as_output";
         from it: gates c' = gates c ++ new with fresh keys, inputs/blocks unchanged, outputs
         only appended, closedness preserved, and  Eval c a l v -> Eval c' a l v  for every l
         (old gates keep their value);  any invariant preserved by [emplace_gate] and
         [mark_as_output] (e.g. a users-index well-formedness) is preserved ([ext_invariant]).
       - step ([gate_tt_spec], [gate_new_spec]): the gate just added has the value den of its
         operands' values.
     Value-level proofs therefore never mention the users index.

   * FRESH LABELS.  uuid4 is a counter [bk] and a naming function [fresh : N -> label] that is a
     PARAMETER of [run] (theorems hold for every naming function, no distinctness hypothesis):
     [Fresh restr] models `generate_random_label` / `_get_new_label(other_restrictions=)`
     literally: it retries with the next counter value while the label exists in the circuit or
     is in [restr].  The Python loop is unbounded; the model's loop runs on fuel
     (size + |restr| + 1 attempts, which is enough whenever [fresh] is injective) and returns
     Err OutOfFuel otherwise.  Freshness of every new label is thus established by the check,
     not assumed.

   * The primitive [AddGate] refuses the type INPUT (Err PyAssertionError): no generator creates
     inputs, and this makes "inputs unchanged" a frame fact of every program. *)
Require Import Cirbo.Model.Base Cirbo.Model.Gate Cirbo.Model.Circuit.
Require Import Cirbo.Generated.ArithTables.

Record bstate : Type := mkB { bc : circuit; bk : N }.

Inductive prog : Type -> Type :=
| Ret {A : Type} (a : A) : prog A
| Bind {A B : Type} (p : prog A) (k : A -> prog B) : prog B
| Fail {A : Type} (e : err) : prog A
| Fresh (restr : list label) : prog label                       (* a new unoccupied label *)
| AddGate (l : label) (t : gtype) (ops : list label) : prog unit   (* circuit.add_gate / emplace_gate *)
| MarkOutput (l : label) : prog unit.                           (* circuit.mark_as_output *)

Notation "'bdo' x <- p ; k" := (Bind p (fun x => k))
  (at level 200, x pattern, p at level 100, k at level 200).

Definition fresh_fuel (c : circuit) (restr : list label) : nat := S (size c + length restr).

Fixpoint fresh_loop (fresh : N -> label) (c : circuit) (restr : list label) (fuel : nat) (k : N)
  : res (label * N) :=
  match fuel with
  | O => Err OutOfFuel
  | S fuel' =>
    let l := fresh k in
    if has_gate c l || memb l restr then fresh_loop fresh c restr fuel' (N.succ k)
    else Ok (l, N.succ k)
  end.

Fixpoint run (fresh : N -> label) {A : Type} (p : prog A) (s : bstate) {struct p} : res (A * bstate) :=
  match p in prog A return res (A * bstate) with
  | Ret a => Ok (a, s)
  | Bind p k =>
    match run fresh p s with
    | Ok (a, s') => run fresh (k a) s'
    | Err e => Err e
    end
  | Fail e => Err e
  | Fresh restr =>
    do r <- fresh_loop fresh (bc s) restr (fresh_fuel (bc s) restr) (bk s);
    Ok (fst r, mkB (bc s) (snd r))
  | AddGate l t ops =>
    if gtype_beq t INPUT then Err PyAssertionError else
    do c' <- add_gate (bc s) l t ops; Ok (tt, mkB c' (bk s))
  | MarkOutput l =>
    do c' <- mark_as_output (bc s) l; Ok (tt, mkB c' (bk s))
  end.

(* ---- derived primitives ------------------------------------------------------------ *)
(* label = generate_random_label(circuit); circuit.emplace_gate(label, t, ops); return label *)
Definition gate_new (t : gtype) (ops : list label) : prog label :=
  bdo l <- Fresh []; bdo _ <- AddGate l t ops; Ret l.

(* _utils.add_gate_from_tt *)
Definition gate_tt (t : tt4) (left right : label) : prog label :=
  gate_new (binary_tt_to_type t) (gate_tt_operands left right).

(* THE reading of a truth-table string: character 2*left + right *)
Definition tt_fun (t : tt4) (l r : bool) : bool :=
  match l, r with
  | false, false => tt_c0 t
  | false, true => tt_c1 t
  | true, false => tt_c2 t
  | true, true => tt_c3 t
  end.

Definition ret_res {A} (r : res A) : prog A :=
  match r with Ok a => Ret a | Err e => Fail e end.

Definition when (b : bool) (p : prog unit) : prog unit := if b then p else Ret tt.

Fixpoint mapP {A B} (f : A -> prog B) (l : list A) : prog (list B) :=
  match l with
  | [] => Ret []
  | x :: xs => bdo y <- f x; bdo ys <- mapP f xs; Ret (y :: ys)
  end.

Fixpoint foldP {A S} (f : S -> A -> prog S) (l : list A) (s : S) : prog S :=
  match l with
  | [] => Ret s
  | x :: xs => bdo s' <- f s x; foldP f xs s'
  end.

Fixpoint iterP {A} (f : A -> prog unit) (l : list A) : prog unit :=
  match l with
  | [] => Ret tt
  | x :: xs => bdo _ <- f x; iterP f xs
  end.

(* ---- Python list idioms used by the generators --------------------------------------- *)
(* reverse_if_big_endian *)
Definition rev_if {A} (big_endian : bool) (l : list A) : list A := if big_endian then rev l else l.

(* l[i] (IndexError when out of range; negative indices are not used with this helper) *)
Definition nthP {A} (l : list A) (i : nat) : prog A := ret_res (nth_res l i).

(* l[-1] *)
Definition lastP {A} (l : list A) : prog A :=
  match rev l with x :: _ => Ret x | [] => Fail PyIndexError end.

(* l[i] = x *)
Fixpoint upd {A} (l : list A) (i : nat) (x : A) : list A :=
  match l, i with
  | [], _ => []
  | _ :: r, O => x :: r
  | y :: r, S j => y :: upd r j x
  end.

(* ---- running a generator on a circuit --------------------------------------------------- *)
(* compact injective names for the uuid counter, used by the harness on both sides:
   "n" followed by the binary digits of k, least significant first *)
Fixpoint pos_digits (p : positive) : string :=
  match p with
  | xH => "1"
  | xO q => String "0" (pos_digits q)
  | xI q => String "1" (pos_digits q)
  end.
Definition short_label (k : N) : label :=
  match k with N0 => "n" | Npos p => String "n" (pos_digits p) end.

Definition run_on {A} (fresh : N -> label) (p : prog A) (c : circuit) (k : N) : res (A * circuit * N) :=
  do r <- run fresh p (mkB c k); Ok (fst r, bc (snd r), bk (snd r)).

(* Circuit.bare_circuit_with_labels / a Circuit() followed by add_inputs *)
Definition circuit_with_inputs (ls : list label) : res circuit := add_inputs empty_circuit ls.

(* little-endian value of a bit vector *)
Fixpoint bits_val (bs : list bool) : Z :=
  match bs with
  | [] => 0%Z
  | b :: r => (Z.b2z b + 2 * bits_val r)%Z
  end.
