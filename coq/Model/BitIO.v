(* cirbo/circuits_db/bit_io.py: BitWriter / BitReader.

   A Python `bytes` value is a `list ascii` (an ascii IS eight bits; `Ascii b0 .. b7`
   has b0 as its least significant bit, which is exactly the order in which
   BitWriter.write fills a byte:  bytearray[-1] |= bit << bit_pos).

   BitWriter: the state (bytearray, bit_pos) is a function of the sequence of bits
   written so far; the model keeps that sequence and `pack` is `bytes(writer)`:
   eight bits per byte, least significant first, the last byte padded with zeros.
   BitReader: the state (bytes, byte_pos, bit_pos) is determined by the sequence of
   bits not yet read, `unpack data` initially; `read` pops one bit and raises
   BitIOError on exhaustion.
   Bit lengths are `nat`, numbers are `N` (the codec never writes a negative int). *)
Require Import Cirbo.Model.Base.

Definition bytes := list ascii.
Definition bits := list bool.

Definition byte_bits (a : ascii) : bits :=
  let 'Ascii b0 b1 b2 b3 b4 b5 b6 b7 := a in [b0; b1; b2; b3; b4; b5; b6; b7].

Definition unpack (bs : bytes) : bits := flat_map byte_bits bs.

Fixpoint pack (bs : bits) : bytes :=
  match bs with
  | [] => []
  | b0 :: b1 :: b2 :: b3 :: b4 :: b5 :: b6 :: b7 :: r => Ascii b0 b1 b2 b3 b4 b5 b6 b7 :: pack r
  | [b0; b1; b2; b3; b4; b5; b6] => [Ascii b0 b1 b2 b3 b4 b5 b6 false]
  | [b0; b1; b2; b3; b4; b5] => [Ascii b0 b1 b2 b3 b4 b5 false false]
  | [b0; b1; b2; b3; b4] => [Ascii b0 b1 b2 b3 b4 false false false]
  | [b0; b1; b2; b3] => [Ascii b0 b1 b2 b3 false false false false]
  | [b0; b1; b2] => [Ascii b0 b1 b2 false false false false false]
  | [b0; b1] => [Ascii b0 b1 false false false false false false]
  | [b0] => [Ascii b0 false false false false false false false]
  end.

Definition b2n : bool -> N := N.b2n.

(* the bits written by write_number: bool((number >> i) & 1) for i = 0 .. k-1 *)
Fixpoint number_bits (x : N) (k : nat) : bits :=
  match k with
  | O => []
  | S k' => N.odd x :: number_bits (N.div2 x) k'
  end.

(* BitWriter.write_number: the bits appended, or BitIOError when (number >> k) != 0 *)
Definition write_number (x : N) (k : nat) : res bits :=
  if N.eqb (N.shiftr x (N.of_nat k)) 0 then Ok (number_bits x k) else Err BitIOError.

Definition write_byte (x : N) : res bits := write_number x 8.

(* BitReader.read *)
Definition br_read (r : bits) : res (bool * bits) :=
  match r with
  | [] => Err BitIOError
  | b :: r' => Ok (b, r')
  end.

(* BitReader.read_number:  number |= bit << i  for i = 0 .. k-1 *)
Fixpoint read_number (k : nat) (r : bits) : res (N * bits) :=
  match k with
  | O => Ok (0%N, r)
  | S k' =>
    do br <- br_read r;
    do xr <- read_number k' (snd br);
    Ok ((b2n (fst br) + 2 * fst xr)%N, snd xr)
  end.

Definition read_byte (r : bits) : res (N * bits) := read_number 8 r.

(* reading n single bits *)
Fixpoint read_bits (n : nat) (r : bits) : res (bits * bits) :=
  match n with
  | O => Ok ([], r)
  | S n' =>
    do br <- br_read r;
    do xr <- read_bits n' (snd br);
    Ok (fst br :: fst xr, snd xr)
  end.
