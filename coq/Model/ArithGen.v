(* The generate_* wrappers: a fresh circuit with the given input labels, one add_* call, and
   the marking of the outputs.  The input labels (str(i) for bare_circuit, x_i / if_i ... for
   generation.py) are a parameter: their spelling is irrelevant to the property and is supplied
   by the harness from the implementation. *)
Require Import Cirbo.Model.Base Cirbo.Model.Gate Cirbo.Model.Circuit Cirbo.Model.Builder.
Require Import Cirbo.Model.ArithSub Cirbo.Model.ArithSum2 Cirbo.Model.ArithDiv Cirbo.Model.ArithSqrt
  Cirbo.Model.ArithMisc.

Section Gen.
  Variable fresh : N -> label.
  Variable k0 : N.

  (* circuit = bare_circuit...; outs = add_x(circuit, ...); circuit.set_outputs(outs) *)
  Definition gen_set_outputs (ins : list label) (p : prog (list label)) : res circuit :=
    do c <- circuit_with_inputs ins;
    do r <- run fresh p (mkB c k0);
    set_outputs (bc (snd r)) (fst r).

  (* the add_* call marks the outputs itself (add_outputs=True) *)
  Definition gen_marked {A} (ins : list label) (p : prog A) : res circuit :=
    do c <- circuit_with_inputs ins;
    do r <- run fresh p (mkB c k0);
    Ok (bc (snd r)).

  Definition generate_sub_two_numbers (ins : list label) (size_a : nat) (big_endian : bool) :=
    gen_set_outputs ins (add_sub_two_numbers (firstn size_a ins) (skipn size_a ins) big_endian).

  Definition generate_div_mod (ins : list label) (n : nat) (big_endian : bool) :=
    gen_set_outputs ins
      (bdo dm <- add_div_mod (firstn n ins) (skipn n ins) big_endian; Ret (fst dm ++ snd dm)).

  Definition generate_sqrt (ins : list label) (big_endian : bool) :=
    gen_set_outputs ins (add_sqrt ins big_endian).

  Definition generate_equal (ins : list label) (num : Z) :=
    gen_set_outputs ins (bdo o <- add_equal ins num; Ret [o]).

  (* x_labels / z_labels as passed to add_plus_one (already reversed by the wrapper when
     big_endian) *)
  Definition generate_plus_one (x_labels z_labels : list label) (big_endian : bool) :=
    gen_marked x_labels (add_plus_one x_labels (Some z_labels) true big_endian).

  Definition generate_if_then_else (i t e r : label) :=
    gen_marked [i; t; e] (add_if_then_else i t e (Some r) true).

  Definition generate_pairwise_if_then_else (ifs thens elses results : list label) :=
    gen_marked (ifs ++ thens ++ elses) (add_pairwise_if_then_else ifs thens elses (Some results) true).

  Definition generate_pairwise_xor (xs ys results : list label) :=
    gen_marked (xs ++ ys) (add_pairwise_xor xs ys (Some results) true).
End Gen.
