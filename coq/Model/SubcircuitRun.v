(* C04: an executable validator for a WHOLE recorded run of minimize_subcircuits.
   A run is the argument circuit c0, the list of recorded events in the order in which they
   happened, and the returned circuit cn.  An event is a replacement step (a call of
   Circuit.replace_subcircuit that took effect) or a merge step (an output equal to a cut leaf
   merged into that leaf by hand + remove_gate); it carries exactly the data of the per-step case
   types of Model/PatCases.v: state before, state after, the cut leaves, the cone outputs (or
   the merged output and the leaf) and the care set (None = compare on all 2^k leaf vectors).

   check_run accepts the run when
     - the states chain: the first event starts from c0, every event starts from the state the
       previous one ended in, the last one ends in cn (a run without events: cn = c0).  State
       equality is History.circuit_eqb: inputs, outputs, the gate dictionary (labels, types,
       operands, insertion order), the users index and the blocks, all compared exactly; it
       reflects Leibniz equality of the circuit records (History.circuit_eqb_eq);
     - every event is accepted by its validator (PatCases.check_val_case = check_subst +
       care_covers, PatCases.check_merge_case = check_merge + care_covers);
     - in the state before every event the listed inputs are INPUT gates (inputs_okb), and when
       the event was compared on all 2^k leaf vectors (care = None) every cut leaf has a Boolean
       value under every Boolean input vector (leaves_boolean: the evaluation that care_covers
       performs, with the full set of vectors as the care set).  The step validators do not
       establish these for the next state, so they are checked rather than assumed;
     - the returned circuit is well formed and has accepted operand counts (WF.wfb, arity_okb):
       needed to pass from the relational semantics to the evaluators evaluate / get_truth_table;
       check_subst / check_merge say nothing about the users index or the blocks of the result.
   Soundness: Proofs/C04Run.v (C04_validated_run in Properties/C04.v). *)
Require Import Cirbo.Model.Base Cirbo.Model.Gate Cirbo.Model.Den Cirbo.Model.Circuit Cirbo.Model.Eval
        Cirbo.Model.History Cirbo.Model.WF Cirbo.Model.PatternSim Cirbo.Model.SubcircuitValidator
        Cirbo.Model.PatCases.
Require Import Cirbo.Generated.GateTypes.

Inductive run_event : Type :=
| EvReplace (x : val_case)      (* (before, after, leaves, outs, care) *)
| EvMerge (x : merge_case).     (* (before, after, leaves, o, l, care) *)

Definition ev_before (e : run_event) : circuit :=
  match e with
  | EvReplace (before, _, _, _, _) => before
  | EvMerge (before, _, _, _, _, _) => before
  end.

Definition ev_after (e : run_event) : circuit :=
  match e with
  | EvReplace (_, after, _, _, _) => after
  | EvMerge (_, after, _, _, _, _) => after
  end.

Definition ev_leaves (e : run_event) : list label :=
  match e with
  | EvReplace (_, _, leaves, _, _) => leaves
  | EvMerge (_, _, leaves, _, _, _) => leaves
  end.

Definition ev_care (e : run_event) : option (list (list bool)) :=
  match e with
  | EvReplace (_, _, _, _, care) => care
  | EvMerge (_, _, _, _, _, care) => care
  end.

(* every listed input is an INPUT gate *)
Definition inputs_okb (c : circuit) : bool := forallb (is_input_gate c) (inputs c).

(* every non-INPUT gate has an operand count its operator accepts (reflects WF.arity_ok) *)
Definition run_arity_okb (c : circuit) : bool :=
  forallb (fun kg : label * gate =>
             gtype_beq (gtyp (snd kg)) INPUT || den_accepts (gtyp (snd kg)) (length (gops (snd kg))))
          (gates c).

(* care = None: the leaves carry a Boolean vector (of the right length) under every Boolean
   input vector; care = Some K is covered by care_covers inside check_val_case / check_merge_case *)
Definition leaves_boolean (c : circuit) (leaves : list label) (care : option (list (list bool))) : bool :=
  match care with
  | Some _ => true
  | None => care_covers c leaves (all_bool_vectors (length leaves))
  end.

Definition check_event (e : run_event) : bool :=
  match e with
  | EvReplace x => check_val_case x
  | EvMerge x => check_merge_case x
  end
  && inputs_okb (ev_before e)
  && leaves_boolean (ev_before e) (ev_leaves e) (ev_care e).

(* c is the state reached so far *)
Fixpoint check_chain (c : circuit) (evs : list run_event) (cn : circuit) : bool :=
  match evs with
  | [] => circuit_eqb c cn
  | e :: rest => circuit_eqb c (ev_before e) && check_event e && check_chain (ev_after e) rest cn
  end.

Definition check_run (c0 : circuit) (evs : list run_event) (cn : circuit) : bool :=
  check_chain c0 evs cn && wfb cn && run_arity_okb cn.

(* the same with the hypotheses about the argument circuit checked as well *)
Definition check_run_closed (c0 : circuit) (evs : list run_event) (cn : circuit) : bool :=
  wfb c0 && run_arity_okb c0 && check_run c0 evs cn.

(* ---- what the harness evaluates (harness/patcorr.py: validate_runs) ---- *)
Definition run_case : Type := (circuit * list run_event * circuit)%type.
Definition check_run_case (x : run_case) : bool :=
  let '(c0, evs, cn) := x in check_run_closed c0 evs cn.

(* diagnostics: the components of check_run_case, one at a time *)
Definition run_chain_links (x : run_case) : bool :=
  let '(c0, evs, cn) := x in
  (fix go (c : circuit) (evs : list run_event) : bool :=
     match evs with
     | [] => circuit_eqb c cn
     | e :: rest => circuit_eqb c (ev_before e) && go (ev_after e) rest
     end) c0 evs.
Definition run_events_ok (x : run_case) : bool :=
  let '(c0, evs, cn) := x in forallb check_event evs.
Definition run_ends_ok (x : run_case) : bool :=
  let '(c0, evs, cn) := x in wfb c0 && run_arity_okb c0 && wfb cn && run_arity_okb cn.
