(* top_sort (Kahn, LIFO), _traverse_circuit (dfs / bfs with hooks) and the cycle
   check of validation.py. Work-list loops run on explicit fuel. *)
Require Import Cirbo.Model.Base Cirbo.Model.Gate Cirbo.Model.Circuit.

(* pop from the end of a Python list *)
Definition pop_last {A} (l : list A) : option (A * list A) :=
  match rev l with [] => None | x :: r => Some (x, rev r) end.

(* ---------------- top_sort ---------------- *)
Definition succs (inverse : bool) (c : circuit) (l : label) (g : gate) : res (list label) :=
  if inverse then get_gate_users c l else Ok (gops g).

Definition init_indegree (inverse : bool) (c : circuit) : res (dict Z) :=
  mapM (fun kg : label * gate =>
          let '(l, g) := kg in
          if inverse then Ok (l, Z.of_nat (length (gops g)))
          else do us <- get_gate_users c l; Ok (l, Z.of_nat (length us))) (gates c).

Fixpoint top_sort_loop (fuel : nat) (inverse : bool) (c : circuit)
         (indeg : dict Z) (queue : list label) (acc : list label) : res (list label) :=
  match fuel with
  | O => Err OutOfFuel
  | S fuel' =>
    match pop_last queue with
    | None => Ok acc
    | Some (cur, queue') =>
      do g <- get_gate c cur;
      do ss <- succs inverse c cur g;
      do st <- foldM (fun (st : dict Z * list label) s =>
                 let '(indeg, q) := st in
                 match dget indeg s with
                 | None => Err PyKeyError
                 | Some d => let d' := (d - 1)%Z in
                             Ok (dset indeg s d', if Z.eqb d' 0 then q ++ [s] else q)
                 end) ss (indeg, queue');
      top_sort_loop fuel' inverse c (fst st) (snd st) (acc ++ [cur])
    end
  end.

(* the labels of the gates yielded by  top_sort(inverse=...)  in order *)
Definition top_sort (inverse : bool) (c : circuit) : res (list label) :=
  match gates c with
  | [] => Ok []
  | _ =>
    do indeg <- init_indegree inverse c;
    let queue := map fst (filter (fun kv => Z.eqb (snd kv) 0) indeg) in
    match queue with
    | [] => Err CircuitIsCyclicalError
    | _ => top_sort_loop (S (size c)) inverse c indeg queue []
    end
  end.

(* ---------------- _traverse_circuit ---------------- *)
Inductive tmode := DFS | BFS.
Inductive tstate := UNVISITED | ENTERED | VISITED.
Scheme Equality for tstate.

Inductive event :=
| EvEnter (l : label)
| EvDiscover (l : label) (s : tstate)     (* state of the discovered gate at hook time *)
| EvExit (l : label)
| EvYield (l : label)
| EvUnvisited (l : label)
| EvEnd.

Definition state_of (sts : dict tstate) (l : label) : tstate :=
  match dget sts l with Some s => s | None => UNVISITED end.

Definition next_of (inverse : bool) (c : circuit) (l : label) (g : gate) : res (list label) :=
  if inverse then get_gate_users c l else Ok (gops g).

(* abort : label -> tstate -> bool  models an on_discover_hook that raises (cycle check) *)
Fixpoint traverse_loop (fuel : nat) (mode : tmode) (inverse : bool) (c : circuit)
         (abort : label -> tstate -> option err)
         (sts : dict tstate) (queue : list label) (log : list event)
  : res (dict tstate * list event) :=
  match fuel with
  | O => Err OutOfFuel
  | S fuel' =>
    let head := match mode with DFS => pop_last queue
                           | BFS => match queue with [] => None | x :: r => Some (x, r) end end in
    match head with
    | None => Ok (sts, log)
    | Some (cur, rest) =>
      do g <- get_gate c cur;
      match state_of sts cur with
      | UNVISITED =>
        let log1 := log ++ [EvEnter cur] in
        let sts1 := dset sts cur ENTERED in
        do ns <- next_of inverse c cur g;
        do st <- foldM (fun (st : list label * list event) ch =>
                   let '(q, lg) := st in
                   do _ <- get_gate c ch;
                   let s := state_of sts1 ch in
                   match abort ch s with
                   | Some e => Err e
                   | None => Ok (if tstate_beq s UNVISITED then q ++ [ch] else q,
                                 lg ++ [EvDiscover ch s])
                   end) ns (queue, log1);
        let '(q2, log2) := st in
        match mode with
        | BFS => (* _bfs_remove: VISITED, pop(0) *)
          traverse_loop fuel' mode inverse c abort (dset sts1 cur VISITED)
                        (tl q2) (log2 ++ [EvYield cur])
        | DFS =>
          traverse_loop fuel' mode inverse c abort sts1 q2 (log2 ++ [EvYield cur])
        end
      | ENTERED =>
        traverse_loop fuel' mode inverse c abort (dset sts cur VISITED) rest (log ++ [EvExit cur])
      | VISITED =>
        traverse_loop fuel' mode inverse c abort sts rest log
      end
    end
  end.

Definition sum_arity (c : circuit) : nat :=
  fold_left (fun n kg => n + length (gops (snd kg))) (gates c) 0.

Definition traverse_fuel (c : circuit) (starts : list label) : nat :=
  2 * (length starts + sum_arity c + size c) + 2.

Definition traverse (mode : tmode) (inverse : bool) (c : circuit)
           (starts : option (list label)) (topsort_unvisited : bool)
           (abort : label -> tstate -> option err) : res (list event) :=
  match gates c with
  | [] => Ok []
  | _ =>
    let queue := match starts with
                 | Some s => s
                 | None => if inverse then inputs c else outputs c
                 end in
    do r <- traverse_loop (traverse_fuel c queue) mode inverse c abort [] queue [];
    let '(sts, log) := r in
    do order <- (if topsort_unvisited then top_sort true c else Ok (dkeys (gates c)));
    let unv := filter (fun l => tstate_beq (state_of sts l) UNVISITED) order in
    Ok (log ++ map EvUnvisited unv ++ [EvEnd])
  end.

Definition no_abort (l : label) (s : tstate) : option err := None.

Definition yielded (log : list event) : list label :=
  flat_map (fun e => match e with EvYield l => [l] | _ => [] end) log.

(* validation.check_circuit_has_no_cycles: dfs from the outputs with a discover hook
   raising on an ENTERED gate *)
Definition cycle_abort (l : label) (s : tstate) : option err :=
  match s with ENTERED => Some CircuitValidationError | _ => None end.

Definition check_circuit_has_no_cycles_from (c : circuit) (starts : option (list label)) : res unit :=
  do _ <- traverse DFS false c starts false cycle_abort; Ok tt.
Definition check_circuit_has_no_cycles (c : circuit) : res unit :=
  check_circuit_has_no_cycles_from c None.
