(* Fixed prelude of translator/t17_search_enc.py (hand written, NOT derived from the source): the Python
   built-ins and the pysat objects that the encoder / decoder of CircuitFinderSat
   (cirbo/synthesis/circuit_search.py) use, over the vocabulary of Model/Search.v.

   Conventions of the translation
   - Python ints that are gate / output / row indices and sizes are `nat` (the constructor builds them with
     `range`; integer parameters of fix_gate / forbid_wire are naturals as in the `constraint` type of the hand
     model).  Subtraction occurs only as a shift count (`py_shift_sub`).
   - The pysat IDPool is modelled exactly as Model/Search.v does: `self._vpool.id(f's_{g}_{a}_{b}')` IS the
     structured variable `VS g a b` (likewise g_ -> VG, x_ -> VX, f_ -> VF), as a positive literal.  A signed
     int literal is `lit = (sign, var)`: `-l` is `lneg l`, `(1 if c else -1) * l` is `lmul c l`.
   - `CNF()` is the list of its clauses: `append` adds one clause at the end, `extend` several.
   - A FunctionModel is the record `fmodel` of the three things the finder reads from it.
   - Exceptions: `sres` is `res` with the error type extended by the argument-check errors of the search
     module (`cons_err` of the hand model) and DontCareCastError. *)
Require Import Cirbo.Model.Base Cirbo.Model.Gate Cirbo.Model.Search Cirbo.Model.SearchCircuit.
Local Open Scope nat_scope.

Inductive serr : Type :=
| SCons (e : cons_err)        (* GateIsAbsentError / FixGateError / FixGateOrderError / ForbidWireOrderError *)
| SPy (e : err)               (* built-in exceptions and those of the circuit layer *)
| SDontCareCast               (* bool(DontCare) *)
| SNoVariable.                (* a pool name that denotes no variable of the model (f_g_p_q with p, q outside 0/1) *)

Inductive sres (A : Type) : Type :=
| SOk : A -> sres A
| SErr : serr -> sres A.
Arguments SOk {A} _.
Arguments SErr {A} _.

Definition sbind {A B} (r : sres A) (f : A -> sres B) : sres B :=
  match r with SOk a => f a | SErr e => SErr e end.
Notation "'sdo' x <- r ; k" := (sbind r (fun x => k))
  (at level 200, x pattern, r at level 100, k at level 200).

Definition lift {A} (r : res A) : sres A :=
  match r with Ok a => SOk a | Err e => SErr (SPy e) end.

(* for x in l: s = f(s, x) *)
Fixpoint sfoldM {A S} (f : S -> A -> sres S) (l : list A) (s : S) : sres S :=
  match l with
  | [] => SOk s
  | x :: xs => sdo s' <- f s x; sfoldM f xs s'
  end.

(* [f(x) for x in l] *)
Fixpoint smapM {A B} (f : A -> sres B) (l : list A) : sres (list B) :=
  match l with
  | [] => SOk []
  | x :: xs => sdo y <- f x; sdo ys <- smapM f xs; SOk (y :: ys)
  end.

(* a for loop whose body may `break` *)
Inductive lstep (S : Type) : Type :=
| LNext : S -> lstep S
| LBreak : S -> lstep S.
Arguments LNext {S} _.
Arguments LBreak {S} _.

Fixpoint sloop {A S} (f : S -> A -> sres (lstep S)) (l : list A) (s : S) : sres S :=
  match l with
  | [] => SOk s
  | x :: xs => sdo r <- f s x;
               match r with LNext s' => sloop f xs s' | LBreak s' => SOk s' end
  end.

(* all(f(x) for x in l): lazy, stops at the first False *)
Fixpoint sallM {A} (f : A -> sres bool) (l : list A) : sres bool :=
  match l with
  | [] => SOk true
  | x :: xs => sdo b <- f x; if b then sallM f xs else SOk false
  end.

(* ---- the FunctionModel protocol as far as the finder uses it ---- *)
Definition tri : Type := option bool.           (* TriValue: None = DontCare *)
Record fmodel : Type := mkFM {
  fm_input_size : nat;                          (* .input_size *)
  fm_output_size : nat;                         (* .output_size *)
  fm_table : list (list tri)                    (* .get_model_truth_table() *)
}.

(* ---- built-ins ---- *)
(* l[i] for a natural i  (IndexError) *)
Definition py_idx {A} (l : list A) (i : nat) : sres A :=
  match nth_error l i with Some x => SOk x | None => SErr (SPy PyIndexError) end.

(* an Optional value used where an int / an object is needed  (TypeError on None) *)
Definition unwrap {A} (o : option A) : sres A :=
  match o with Some x => SOk x | None => SErr (SPy PyTypeError) end.
Definition is_some {A} (o : option A) : bool := match o with Some _ => true | None => false end.

(* x in l for ints *)
Definition mem_nat (x : nat) (l : list nat) : bool := existsb (Nat.eqb x) l.
(* truth value of an int *)
Definition nz (x : nat) : bool := negb (x =? 0).

(* a - b where the result is a shift count: Python computes a (possibly negative) int and `>>` raises
   ValueError on a negative count; subtracting naturals from a negative int keeps it negative, so the
   error propagates through a chain a - b - c *)
Definition py_shift_sub (a b : nat) : sres nat :=
  if b <=? a then SOk (a - b) else SErr (SPy PyValueError).

(* o == DontCare ; bool(o) for a TriValue *)
Definition tri_is_dc (o : tri) : bool := is_none o.
Definition tri_truthy (o : tri) : sres bool :=
  match o with Some b => SOk b | None => SErr SDontCareCast end.

(* the value of an operator (Generated/GateTypes.operator_of) is a gate state: True / False / DontCare *)
Definition st_in_bools (s : st) (l : list bool) : bool := existsb (fun b => st_beq s (inj b)) l.
Definition st_truthy (s : st) : sres bool :=
  match s with T => SOk true | F => SOk false | U => SErr SDontCareCast end.

(* sign * literal for sign in {1, -1} (true = 1) *)
Definition lmul (sign : bool) (l : lit) : lit := if sign then l else lneg l.
(* l in model, for a list of signed literals *)
Definition lit_in (l : lit) (model : list lit) : bool := existsb (lit_eqb l) model.

(* the p / q part of the name f_g_p_q *)
Definition bit_of_nat (p : nat) : sres bool :=
  match p with 0 => SOk false | 1 => SOk true | _ => SErr SNoVariable end.

(* Operation.value: a string of four 0/1 characters (checked by translator T3), as the list of its digits;
   int(c) of such a character is the digit itself *)
Definition b2n (b : bool) : nat := if b then 1 else 0.
Definition tt4_digits (t : tt4) : list nat :=
  let '(a, b, c, d) := t in [b2n a; b2n b; b2n c; b2n d].

(* itertools.product(l, repeat=2 / 3) *)
Definition py_product2 {A} (l : list A) : list (A * A) :=
  flat_map (fun a => map (fun b => (a, b)) l) l.
Definition py_product3 {A} (l : list A) : list (A * A * A) :=
  flat_map (fun a => flat_map (fun b => map (fun c => (a, b, c)) l) l) l.

(* ---- the decoder (_get_circuit_by_model) ---- *)
(* x in l for an Optional int: None is in no list of ints *)
Definition opt_mem_nat (o : option nat) (l : list nat) : bool :=
  match o with Some x => mem_nat x l | None => false end.
(* str(x) for an Optional int *)
Definition opt_nat_str (o : option nat) : string :=
  match o with Some x => SearchCircuit.nat_str x | None => "None"%string end.
(* _tt_to_gate_type[tuple(l)]: the keys are the sixteen 4-tuples (checked by translator T3)  (KeyError) *)
Definition tt4_of_list (l : list bool) : sres tt4 :=
  match l with [a; b; c; d] => SOk (a, b, c, d) | _ => SErr (SPy PyKeyError) end.
