(* The checker run over every entry of the shipped databases (C17, data half):
   the entry decodes, the decoded circuit is well formed, its truth table (computed by the
   model of Circuit.get_truth_table) is exactly the key, its gates belong to the basis. *)
Require Import Cirbo.Model.Base Cirbo.Model.Gate Cirbo.Model.Circuit Cirbo.Model.Eval.
Require Import Cirbo.Model.BitIO Cirbo.Model.DictIO Cirbo.Model.Codec Cirbo.Model.CodecCheck Cirbo.Model.Db.
Require Import Cirbo.Generated.CodecTables.

Definition state_to_bool (s : st) : option bool :=
  match s with T => Some true | F => Some false | U => None end.

Fixpoint all_some {A} (l : list (option A)) : option (list A) :=
  match l with
  | [] => Some []
  | Some x :: r => match all_some r with Some xs => Some (x :: xs) | None => None end
  | None :: _ => None
  end.

Definition table_of_states (t : list (list st)) : option table :=
  all_some (map (fun row => all_some (map state_to_bool row)) t).

Definition wf_checks (c : circuit) : bool :=
  codec_wfb c && ops_existb c && outputs_existb c && acyclicb (dkeys (gates c)) c && users_exactb c
  && match blocks c with [] => true | _ => false end.

Definition check_entry (basis : list gtype) (key : label) (bs : bytes) : bool :=
  match decode_circuit bs with
  | Err _ => false
  | Ok c =>
    wf_checks c && in_basisb basis c
    && match get_truth_table c with
       | Ok rows =>
         match table_of_states rows with
         | Some t => String.eqb (truth_table_to_label t) key
         | None => false
         end
       | Err _ => false
       end
  end.

(* the bases of the two shipped databases *)
Definition AIG_BASIS : list gtype := [AND; NOT].
Definition XAIG_BASIS : list gtype := [AND; OR; NAND; NOR; GT; LT; GEQ; LEQ; XOR; NXOR; NOT].

(* every record of a database image, in file order (duplicated keys included) *)
Definition db_records (s : bytes) : res (list (label * bytes)) :=
  do sz <- read_unsigned DICT_SIZE_BYTE_SIZE s;
  do r <- read_records (N.to_nat (fst sz)) (snd sz) [];
  do _ <- expect_eof (snd r);
  Ok (fst r).

Fixpoint failing_from (chk : label -> bytes -> bool) (l : list (label * bytes)) (i : nat) (acc : list nat)
  : list nat :=
  match l with
  | [] => rev_append acc []
  | (k, v) :: r => failing_from chk r (S i) (if chk k v then acc else i :: acc)
  end.

(* the records lo .. lo+len-1 *)
Definition slice_records (recs : list (label * bytes)) (lo len : nat) : list (label * bytes) :=
  firstn len (skipn lo recs).

(* indices (counted from lo) of the records of a slice that the check rejects *)
Definition check_slice (basis : list gtype) (slice : list (label * bytes)) (lo : nat) : list nat :=
  failing_from (check_entry basis) slice lo [].

(* sweep of one range in one go: number of records and the failing indices within [lo, lo+len) *)
Definition sweep (basis : list gtype) (s : bytes) (lo len : nat) : res (nat * list nat) :=
  do recs <- db_records s;
  Ok (length recs, check_slice basis (slice_records recs lo len) lo).

(* for the in-kernel re-check of a sample: (key, bytes) pairs as the harness prints them *)
Definition check_sample (basis : list gtype) (kv : list N * list N) : bool :=
  check_entry basis (string_of_list_ascii (map ascii_of_N (fst kv))) (map ascii_of_N (snd kv)).
