(* Correspondence cases for the arithmetic generators of C09: a host circuit, the uuid counter,
   one call, and the implementation's result (returned labels, full circuit state, counter;
   or the error kind). *)
Require Import Cirbo.Model.Base Cirbo.Model.Gate Cirbo.Model.Circuit Cirbo.Model.History
  Cirbo.Model.Builder.
Require Import Cirbo.Generated.ArithTables Cirbo.Generated.ArithCells.
Require Import Cirbo.Model.ArithSub Cirbo.Model.ArithSum2 Cirbo.Model.ArithDiv Cirbo.Model.ArithSqrt
  Cirbo.Model.ArithMisc Cirbo.Model.ArithGen.

Inductive acall : Type :=
| CGateTT (t : tt4) (x y : label)
| CSub2 (ls : list label) (be : bool)
| CSub3 (ls : list label) (be : bool)
| CSub (a b : list label) (be : bool)
| CSubCmp (a b : list label) (be : bool)
| CSum2 (a b : list label) (be : bool)
| CDivMod (a b : list label) (be : bool)
| CSqrt (x : list label) (be : bool)
| CEqual (x : list label) (num : Z)
| CPlusOne (x : list label) (res : option (list label)) (add_outputs be : bool)
| CIte (i t e : label) (res : option label) (add_outputs : bool)
| CPIte (i t e : list label) (res : option (list label)) (add_outputs : bool)
| CPXor (x y : list label) (res : option (list label)) (add_outputs : bool).

(* every result as a list of label lists *)
Definition run_call (c : acall) : prog (list (list label)) :=
  match c with
  | CGateTT t x y => bdo l <- gate_tt t x y; Ret [[l]]
  | CSub2 ls be => bdo r <- add_sub2 ls be; Ret [r]
  | CSub3 ls be => bdo r <- add_sub3 ls be; Ret [r]
  | CSub a b be => bdo r <- add_sub_two_numbers a b be; Ret [r]
  | CSubCmp a b be => bdo r <- add_subtract_with_compare a b be; Ret [fst r; [snd r]]
  | CSum2 a b be => bdo r <- add_sum_two_numbers a b be; Ret [r]
  | CDivMod a b be => bdo r <- add_div_mod a b be; Ret [fst r; snd r]
  | CSqrt x be => bdo r <- add_sqrt x be; Ret [r]
  | CEqual x num => bdo r <- add_equal x num; Ret [[r]]
  | CPlusOne x res ao be => bdo r <- add_plus_one x res ao be; Ret [r]
  | CIte i t e res ao => bdo r <- add_if_then_else i t e res ao; Ret [[r]]
  | CPIte i t e res ao => bdo r <- add_pairwise_if_then_else i t e res ao; Ret [r]
  | CPXor x y res ao => bdo r <- add_pairwise_xor x y res ao; Ret [r]
  end.

Definition arith_result : Type := list (list label) * circuit * N.

Definition arith_result_eqb (a b : arith_result) : bool :=
  let '(la, ca, ka) := a in
  let '(lb, cb, kb) := b in
  all_eqb labels_eqb la lb && circuit_eqb ca cb && N.eqb ka kb.

Definition arith_case : Type := circuit * N * acall * res arith_result.

Definition check_arith_case (x : arith_case) : bool :=
  let '(host, k0, call, expected) := x in
  res_eqb arith_result_eqb (run_on short_label (run_call call) host k0) expected.

(* the generate_* wrappers *)
Inductive gcall : Type :=
| GSub (ins : list label) (size_a : nat) (be : bool)
| GDivMod (ins : list label) (n : nat) (be : bool)
| GSqrt (ins : list label) (be : bool)
| GEqual (ins : list label) (num : Z)
| GPlusOne (xs zs : list label) (be : bool)
| GIte (i t e r : label)
| GPIte (i t e r : list label)
| GPXor (x y r : list label).

Definition run_gcall (k0 : N) (g : gcall) : res circuit :=
  match g with
  | GSub ins sa be => generate_sub_two_numbers short_label k0 ins sa be
  | GDivMod ins n be => generate_div_mod short_label k0 ins n be
  | GSqrt ins be => generate_sqrt short_label k0 ins be
  | GEqual ins num => generate_equal short_label k0 ins num
  | GPlusOne xs zs be => generate_plus_one short_label k0 xs zs be
  | GIte i t e r => generate_if_then_else short_label k0 i t e r
  | GPIte i t e r => generate_pairwise_if_then_else short_label k0 i t e r
  | GPXor x y r => generate_pairwise_xor short_label k0 x y r
  end.

Definition gen_case : Type := N * gcall * res circuit.
Definition check_gen_case (x : gen_case) : bool :=
  let '(k0, g, expected) := x in res_eqb circuit_eqb (run_gcall k0 g) expected.
