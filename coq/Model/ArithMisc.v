(* equality.py (add_equal) and generation.py (add_plus_one, add_if_then_else,
   add_pairwise_if_then_else, add_pairwise_xor).

   REPAIRED code is modelled:
   * add_equal (fixes/D10.patch): a negative constant yields the ALWAYS_FALSE gate, like a
     constant that does not fit.
   * add_plus_one (fixes/D9.patch): outputs are marked only when add_outputs is set, in the
     order of the returned labels, appended to the existing outputs; the calls of
     order_inputs / order_outputs are gone (they raised for operands that are not primary
     inputs or when no outputs were requested, and reordered the host's inputs). *)
Require Import Cirbo.Model.Base Cirbo.Model.Gate Cirbo.Model.Circuit Cirbo.Model.Builder.

(* ---- equality.py -------------------------------------------------------------------- *)
(* bits = bin(num)[2:].zfill(n)[::-1]; "does not fit": len(bits) > n (bin(0) has one digit,
   so nothing fits into zero inputs) *)
Definition const_fits (num : Z) (n : nat) : bool :=
  (0 <=? num)%Z && (num <? 2 ^ Z.of_nat n)%Z && negb (n =? 0)%nat.

Fixpoint const_bits (num : Z) (n : nat) : list bool :=
  match n with
  | O => []
  | S n' => Z.odd num :: const_bits (Z.div2 num) n'
  end.

(* for bit, inp in zip(bits, input_labels): NOT(inp) if bit == '0' else inp *)
Fixpoint eq_literals (bits : list bool) (inps : list label) : prog (list label) :=
  match bits, inps with
  | bit :: bits', inp :: inps' =>
    bdo g <- (if bit then Ret inp else gate_new NOT [inp]);
    bdo rest <- eq_literals bits' inps';
    Ret (g :: rest)
  | _, _ => Ret []
  end.

Definition add_equal (input_labels : list label) (num : Z) : prog label :=
  let n := length input_labels in
  if negb (const_fits num n) then gate_new ALWAYS_FALSE [] else
  bdo gs <- eq_literals (const_bits num n) input_labels;
  bdo last_label <- Fresh [];
  match gs with
  | [] => Fail PyIndexError
  | [g] => Ret g
  | g0 :: g1 :: rest =>
    bdo _ <- AddGate last_label AND [g0; g1];
    foldP (fun last out => gate_new AND [last; out]) rest last_label
  end.

(* ---- generation.py ------------------------------------------------------------------ *)
(* [_get_new_label(circuit) for _ in range(n)] *)
Fixpoint fresh_n (n : nat) : prog (list label) :=
  match n with
  | O => Ret []
  | S n' => bdo l <- Fresh []; bdo ls <- fresh_n n'; Ret (l :: ls)
  end.

(* _get_new_labels(circuit, n, other_restrictions=restr) *)
Fixpoint fresh_list (n : nat) (restr : list label) : prog (list label) :=
  match n with
  | O => Ret []
  | S n' => bdo l <- Fresh restr; bdo ls <- fresh_list n' (restr ++ [l]); Ret (l :: ls)
  end.

Definition is_nil {A} (l : list A) : bool := match l with [] => true | _ => false end.

(* for i in range(1, out_len): inp / res / car are the tails from index i on, pc = carries[i-1],
   at_len = (i == inp_len) when inp is exhausted *)
Fixpoint plus_loop (inp res car : list label) (pc : label) (at_len : bool) : prog unit :=
  match res with
  | [] => Ret tt
  | r :: res' =>
    match inp with
    | x :: inp' =>
      bdo ci <- nthP car 0;
      bdo _ <- when (negb (is_nil res')) (AddGate ci AND [x; pc]);
      bdo _ <- AddGate r XOR [x; pc];
      plus_loop inp' res' (tl car) ci true
    | [] =>
      bdo _ <- (if at_len then AddGate r IFF [pc] else AddGate r ALWAYS_FALSE []);
      plus_loop [] res' (tl car) pc false
    end
  end.

Definition add_plus_one (input_labels : list label) (result_labels : option (list label))
           (add_outputs big_endian : bool) : prog (list label) :=
  let inp_len := length input_labels in
  bdo result_labels <- (match result_labels with
                        | Some r => Ret r
                        | None => fresh_n (S inp_len)
                        end);
  let inp := rev_if big_endian input_labels in
  let res := rev_if big_endian result_labels in
  let out_len := length res in
  bdo carries <- fresh_list out_len res;
  bdo c0 <- nthP carries 0;
  bdo x0 <- nthP inp 0;
  bdo _ <- AddGate c0 IFF [x0];
  bdo r0 <- nthP res 0;
  bdo _ <- AddGate r0 NOT [x0];
  bdo _ <- plus_loop (tl inp) (tl res) (tl carries) c0 true;
  bdo _ <- when add_outputs (iterP MarkOutput result_labels);
  Ret result_labels.

Definition add_if_then_else (if_label then_label else_label : label) (result_label : option label)
           (add_outputs : bool) : prog label :=
  bdo result_label <- (match result_label with Some r => Ret r | None => Fresh [] end);
  bdo tmp <- fresh_list 3 [result_label];
  match tmp with
  | [t0; t1; t2] =>
    bdo _ <- AddGate t0 AND [if_label; then_label];
    bdo _ <- AddGate t1 NOT [if_label];
    bdo _ <- AddGate t2 AND [t1; else_label];
    bdo _ <- AddGate result_label OR [t0; t2];
    bdo _ <- when add_outputs (MarkOutput result_label);
    Ret result_label
  | _ => Fail PyIndexError
  end.

Fixpoint ite_loop (ifs thens elses results : list label) (add_outputs : bool) : prog unit :=
  match ifs, thens, elses, results with
  | i :: ifs', t :: thens', e :: elses', r :: results' =>
    bdo _ <- add_if_then_else i t e (Some r) add_outputs;
    ite_loop ifs' thens' elses' results' add_outputs
  | _, _, _, _ => Ret tt
  end.

Definition add_pairwise_if_then_else (if_labels then_labels else_labels : list label)
           (result_labels : option (list label)) (add_outputs : bool) : prog (list label) :=
  if negb ((length if_labels =? length then_labels) && (length then_labels =? length else_labels))%nat
  then Fail GenerationError else
  let n := length if_labels in
  bdo result_labels <- (match result_labels with Some r => Ret r | None => fresh_n n end);
  if negb (length result_labels =? n)%nat then Fail GenerationError else
  bdo _ <- ite_loop if_labels then_labels else_labels result_labels add_outputs;
  Ret result_labels.

Fixpoint xor_loop (xs ys results : list label) (add_outputs : bool) : prog unit :=
  match xs, ys, results with
  | x :: xs', y :: ys', r :: results' =>
    bdo _ <- AddGate r XOR [x; y];
    bdo _ <- when add_outputs (MarkOutput r);
    xor_loop xs' ys' results' add_outputs
  | _, _, _ => Ret tt
  end.

Definition add_pairwise_xor (x_labels y_labels : list label) (result_labels : option (list label))
           (add_outputs : bool) : prog (list label) :=
  if negb (length x_labels =? length y_labels)%nat then Fail GenerationError else
  let n := length x_labels in
  bdo result_labels <- (match result_labels with Some r => Ret r | None => fresh_n n end);
  if negb (length result_labels =? n)%nat then Fail GenerationError else
  bdo _ <- xor_loop x_labels y_labels result_labels add_outputs;
  Ret result_labels.
