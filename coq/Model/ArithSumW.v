(* cirbo/synthesis/generation/arithmetics/summation.py: the weighted-sum generators
   add_sum_n_weighted_bits_naive and add_sum_n_weighted_bits, and the three generate_* wrappers.

   This file models the REPAIRED code (fixes/D5.patch): both functions first resolve `basis`
   exactly like add_sum_n_bits does (`GenerationBasis(basis.upper())` for a string); the pinned
   code compares the unresolved argument with GenerationBasis.AIG, so that basis="AIG" silently
   selects the XOR cells.

   SORTED WORK LISTS.  `single` is a sortedcontainers.SortedList of (level, label) tuples and
   `pairs` one of (level, x, xy) tuples; Python orders tuples lexicographically, levels as
   integers, labels as strings (by code point; the harness uses ASCII labels, for which this is
   [String.compare]).  [SortedList.add] inserts after the elements that are not greater
   (bisect_right); equal tuples are indistinguishable, so the position among them is immaterial.

   THE SENTINEL.  Python appends (inf, "inf_label") to both lists, inf = max level + n + 1, and
   leaves the loop (`break`) with a TRUNCATED result should the lowest pending level ever reach
   inf.  The model keeps the lists without the sentinel and returns Err PyAssertionError in that
   situation (a malformed result is an error of the model, DESIGN section 7/C07); levels grow by
   at most one per emitted result bit, so the branch is unreachable, and the correspondence check
   would report it if the implementation ever took it. *)
Require Import Cirbo.Model.Base Cirbo.Model.Gate Cirbo.Model.Circuit Cirbo.Model.Builder.
Require Import Cirbo.Generated.ArithTables Cirbo.Generated.ArithCells.
Require Import Cirbo.Model.ArithSub Cirbo.Model.ArithSum2 Cirbo.Model.ArithSumN Cirbo.Model.ArithGen.

Definition witem : Type := (N * label)%type.             (* (level, label) *)
Definition wpair : Type := (N * label * label)%type.     (* (level, x, xy) *)

Definition witem_ltb (a b : witem) : bool :=
  let '(la, xa) := a in let '(lb, xb) := b in
  (la <? lb)%N || ((la =? lb)%N && String.ltb xa xb).

Definition wpair_ltb (a b : wpair) : bool :=
  let '(la, xa, ya) := a in let '(lb, xb, yb) := b in
  (la <? lb)%N || ((la =? lb)%N && (String.ltb xa xb || (String.eqb xa xb && String.ltb ya yb))).

(* SortedList.add *)
Fixpoint sl_add {A} (ltb : A -> A -> bool) (x : A) (l : list A) : list A :=
  match l with
  | [] => [x]
  | y :: r => if ltb x y then x :: l else y :: sl_add ltb x r
  end.

(* SortedList(iterable) *)
Definition sl_of_list {A} (ltb : A -> A -> bool) (l : list A) : list A :=
  fold_left (fun acc x => sl_add ltb x acc) l [].

(* while single[0][0] == now_level: now_singles.append(single[0][1]); single.discard(single[0]) *)
Fixpoint take_level (lev : N) (l : list witem) : list label * list witem :=
  match l with
  | (lv, x) :: r =>
    if (lv =? lev)%N then let '(a, b) := take_level lev r in (x :: a, b) else ([], l)
  | [] => ([], [])
  end.

Fixpoint take_level_pairs (lev : N) (l : list wpair) : list (label * label) * list wpair :=
  match l with
  | (lv, x, y) :: r =>
    if (lv =? lev)%N then let '(a, b) := take_level_pairs lev r in ((x, y) :: a, b) else ([], l)
  | [] => ([], [])
  end.

(* for label in next_solo: single.add((now_level + 1, label))      (Python order of next_solo) *)
Definition add_singles (lev : N) (next_solo : list label) (single : list witem) : list witem :=
  fold_left (fun acc x => sl_add witem_ltb (lev, x) acc) next_solo single.
Definition add_pairs (lev : N) (next_xxy : list (label * label)) (pairs : list wpair) : list wpair :=
  fold_left (fun acc p => sl_add wpair_ltb (lev, fst p, snd p) acc) next_xxy pairs.

(* inf = max([i[0] for i in input]) + len(input) + 1;  max([]) raises ValueError *)
Definition w_inf (inp : list witem) : res N :=
  match inp with
  | [] => Err PyValueError
  | _ => Ok (fold_right N.max 0%N (map fst inp) + N.of_nat (length inp) + 1)%N
  end.

(* one level in the AIG mode / in the naive generator: now_solo = now_singles;
   the sum3 / sum2 loop; res.append((now_level, now_solo[0])); the carries go to level + 1.
   (In the loop of the implementation every carry is added to `single` as soon as it is created;
   all of them carry the level now_level + 1 and nothing is popped in between.) *)
Definition solo_level (cell3 cell2 : list label -> prog (list label)) (lev : N)
           (now_singles : list label) (rest : list witem) : prog (label * list witem) :=
  match rev now_singles with
  | [] => Fail PyIndexError                                       (* now_solo[0] *)
  | top :: others =>
    bdo r <- solo_loop cell3 cell2 top others [];
    Ret (fst r, add_singles (lev + 1) (rev (snd r)) rest)
  end.

(* ---- add_sum_n_weighted_bits_naive ------------------------------------------------------------ *)
Fixpoint naive_loop (fuel : nat) (inf : N) (cell3 cell2 : list label -> prog (list label))
         (single : list witem) : prog (list witem) :=
  match single with
  | [] => Ret []
  | (lev, _) :: _ =>
    match fuel with
    | O => Fail OutOfFuel
    | S f =>
      if (inf <=? lev)%N then Fail PyAssertionError               (* Python: break (see header) *)
      else
        let '(now_singles, rest) := take_level lev single in
        bdo st <- solo_level cell3 cell2 lev now_singles rest;
        bdo rs <- naive_loop f inf cell3 cell2 (snd st);
        Ret ((lev, fst st) :: rs)
    end
  end.

Definition add_sum_n_weighted_bits_naive (basis : basis_arg) (inp : list witem) : prog (list witem) :=
  bdo b <- ret_res (resolve_basis basis);                         (* D5 repair *)
  bdo inf <- ret_res (w_inf inp);
  let single := sl_of_list witem_ltb inp in
  match b with
  | AIG => naive_loop (S (length inp)) inf add_sum3_aig add_sum2_aig single
  | XAIG => naive_loop (S (length inp)) inf add_sum3 add_sum2 single
  end.

(* ---- add_sum_n_weighted_bits ------------------------------------------------------------------- *)
Definition head_level (inf : N) {A} (lev_of : A -> N) (l : list A) : N :=
  match l with [] => inf | x :: _ => lev_of x end.

Fixpoint eff_loop (fuel : nat) (inf : N) (b : gen_basis) (single : list witem) (pairs : list wpair)
  : prog (list witem) :=
  match single, pairs with
  | [], [] => Ret []
  | _, _ =>
    match fuel with
    | O => Fail OutOfFuel
    | S f =>
      let lev := N.min (head_level inf fst single) (head_level inf (fun p => fst (fst p)) pairs) in
      if (inf <=? lev)%N then Fail PyAssertionError               (* Python: break (see header) *)
      else
        let '(now_singles, single1) := take_level lev single in
        let '(now_pairs, pairs1) := take_level_pairs lev pairs in
        match b with
        | AIG =>
          (* `continue` after the AIG cells: the pairs popped at this level (there never are any
             in this mode) are dropped *)
          bdo st <- solo_level add_sum3_aig add_sum2_aig lev now_singles single1;
          bdo rs <- eff_loop f inf b (snd st) pairs1;
          Ret ((lev, fst st) :: rs)
        | XAIG =>
          bdo st <- pair_up (rev now_singles) (rev now_pairs);
          bdo lv <- xaig_level (fst st) (snd st);
          let '(r, next_solo, next_xxy) := lv in
          bdo rs <- eff_loop f inf b (add_singles (lev + 1) (rev next_solo) single1)
                                     (add_pairs (lev + 1) (rev next_xxy) pairs1);
          Ret ((lev, r) :: rs)
        end
    end
  end.

Definition add_sum_n_weighted_bits (basis : basis_arg) (inp : list witem) : prog (list witem) :=
  bdo b <- ret_res (resolve_basis basis);                         (* D5 repair *)
  bdo inf <- ret_res (w_inf inp);
  eff_loop (S (length inp)) inf b (sl_of_list witem_ltb inp) [].

(* ---- the generate_* wrappers ------------------------------------------------------------------ *)
Section Gen.
  Variable fresh : N -> label.
  Variable k0 : N.

  (* ins = the labels of Circuit.bare_circuit(n) *)
  Definition generate_sum_n_bits (ins : list label) (basis : basis_arg) (big_endian : bool) :=
    gen_set_outputs fresh k0 ins (add_sum_n_bits basis big_endian ins).

  Definition generate_sum_weighted_bits_efficient (ins : list label) (weights : list N) (basis : basis_arg) :=
    gen_set_outputs fresh k0 ins
      (bdo r <- add_sum_n_weighted_bits basis (combine weights ins); Ret (map snd r)).

  Definition generate_sum_weighted_bits_naive (ins : list label) (weights : list N) (basis : basis_arg) :=
    gen_set_outputs fresh k0 ins
      (bdo r <- add_sum_n_weighted_bits_naive basis (combine weights ins); Ret (map snd r)).
End Gen.
