(* cirbo/circuits_db/binary_dict_io.py: write_binary_dict / read_binary_dict.

   A stream is the list of bytes not yet read (`stream.read(n)` takes a prefix); the
   writer returns the bytes written.  A Python `str` key is represented by the Coq
   `string` of its UTF-8 bytes (Coq strings are byte strings), so `key.encode('utf-8')`
   is `list_ascii_of_string` and `key_bytes.decode('utf-8')` is `string_of_list_ascii`
   guarded by the validity test `utf8_valid` (UnicodeDecodeError is a ValueError).
   `int.to_bytes` raises OverflowError when the number does not fit: no constructor of
   Base.err stands for it, the model uses PyValueError (the harness maps OverflowError
   to the same name).  This is the REPAIRED code (fixes/D13.patch): the key length
   written is the length of the encoded key. *)
Require Import Cirbo.Model.Base Cirbo.Model.BitIO.
Require Import Cirbo.Generated.CodecTables.

(* int.from_bytes(bs, byteorder='big', signed=False) *)
Definition be_number (bs : bytes) : N :=
  fold_left (fun acc b => (acc * 256 + N_of_ascii b)%N) bs 0%N.

(* the len low-order base-256 digits of x, least significant first *)
Fixpoint le_bytes (x : N) (len : nat) : bytes :=
  match len with
  | O => []
  | S len' => ascii_of_N (x mod 256) :: le_bytes (x / 256) len'
  end.

(* number.to_bytes(length=len, byteorder='big', signed=False) *)
Definition to_bytes (x : N) (len : nat) : res bytes :=
  if (x <? 256 ^ N.of_nat len)%N then Ok (rev (le_bytes x len)) else Err PyValueError.

(* stream.read(n): the first n bytes and the rest, None when fewer than n bytes are left
   (structural, so that reading never walks the whole remaining stream) *)
Fixpoint take_bytes (n : nat) (s : bytes) : option (bytes * bytes) :=
  match n with
  | O => Some ([], s)
  | S n' =>
    match s with
    | [] => None
    | x :: r => match take_bytes n' r with Some (a, b) => Some (x :: a, b) | None => None end
    end
  end.

(* _read_exact_number_of_bytes *)
Definition read_exact (n : nat) (s : bytes) : res (bytes * bytes) :=
  match take_bytes n s with Some r => Ok r | None => Err BinaryDictIOError end.

(* _read_unsigned_number *)
Definition read_unsigned (n : nat) (s : bytes) : res (N * bytes) :=
  do r <- read_exact n s; Ok (be_number (fst r), snd r).

(* ---- strict UTF-8 (what bytes.decode('utf-8') accepts): Unicode table 3-7 ---- *)
Definition in_range (lo hi : N) (a : ascii) : bool :=
  let n := N_of_ascii a in (lo <=? n)%N && (n <=? hi)%N.
Definition cont (a : ascii) : bool := in_range 128 191 a.

Fixpoint utf8_valid (bs : bytes) : bool :=
  match bs with
  | [] => true
  | a :: r =>
    if in_range 0 127 a then utf8_valid r
    else if in_range 194 223 a then
      match r with b :: r' => cont b && utf8_valid r' | _ => false end
    else if in_range 224 224 a then
      match r with b :: c :: r' => in_range 160 191 b && cont c && utf8_valid r' | _ => false end
    else if in_range 225 236 a || in_range 238 239 a then
      match r with b :: c :: r' => cont b && cont c && utf8_valid r' | _ => false end
    else if in_range 237 237 a then
      match r with b :: c :: r' => in_range 128 159 b && cont c && utf8_valid r' | _ => false end
    else if in_range 240 240 a then
      match r with b :: c :: d :: r' => in_range 144 191 b && cont c && cont d && utf8_valid r' | _ => false end
    else if in_range 241 243 a then
      match r with b :: c :: d :: r' => cont b && cont c && cont d && utf8_valid r' | _ => false end
    else if in_range 244 244 a then
      match r with b :: c :: d :: r' => in_range 128 143 b && cont c && cont d && utf8_valid r' | _ => false end
    else false
  end.

Definition utf8_decode (kb : bytes) : res label :=
  if utf8_valid kb then Ok (string_of_list_ascii kb) else Err PyValueError.

(* ---- read_binary_dict ---- *)
Fixpoint read_entries (n : nat) (s : bytes) (acc : dict bytes) : res (dict bytes * bytes) :=
  match n with
  | O => Ok (acc, s)
  | S n' =>
    do kl <- read_unsigned DICT_KEY_BYTE_SIZE s;
    do kb <- read_exact (N.to_nat (fst kl)) (snd kl);
    do key <- utf8_decode (fst kb);
    do vl <- read_unsigned DICT_VALUE_BYTE_SIZE (snd kb);
    do vb <- read_exact (N.to_nat (fst vl)) (snd vl);
    read_entries n' (snd vb) (dset acc key (fst vb))          (* data[key] = val *)
  end.

(* _expect_eof *)
Definition expect_eof (s : bytes) : res unit :=
  match s with [] => Ok tt | _ => Err BinaryDictIOError end.

Definition read_binary_dict (s : bytes) : res (dict bytes) :=
  do sz <- read_unsigned DICT_SIZE_BYTE_SIZE s;
  do r <- read_entries (N.to_nat (fst sz)) (snd sz) [];
  do _ <- expect_eof (snd r);
  Ok (fst r).

(* ---- write_binary_dict (repaired: byte length of the key) ---- *)
Definition write_entry (kv : label * bytes) : res bytes :=
  let kb := list_ascii_of_string (fst kv) in
  do kl <- to_bytes (N.of_nat (length kb)) DICT_KEY_BYTE_SIZE;
  do vl <- to_bytes (N.of_nat (length (snd kv))) DICT_VALUE_BYTE_SIZE;
  Ok (kl ++ kb ++ vl ++ snd kv).

Definition write_binary_dict (d : dict bytes) : res bytes :=
  do h <- to_bytes (N.of_nat (length d)) DICT_SIZE_BYTE_SIZE;
  do es <- mapM write_entry d;
  Ok (h ++ concat es).

(* the raw records of a stream in file order, without building the dictionary (used by
   the sweep over the shipped databases, where dset would be quadratic) *)
Fixpoint read_records (n : nat) (s : bytes) (acc : list (label * bytes)) : res (list (label * bytes) * bytes) :=
  match n with
  | O => Ok (rev_append acc [], s)
  | S n' =>
    do kl <- read_unsigned DICT_KEY_BYTE_SIZE s;
    do kb <- read_exact (N.to_nat (fst kl)) (snd kl);
    do key <- utf8_decode (fst kb);
    do vl <- read_unsigned DICT_VALUE_BYTE_SIZE (snd kb);
    do vb <- read_exact (N.to_nat (fst vl)) (snd vl);
    read_records n' (snd vb) ((key, fst vb) :: acc)
  end.
