(* Case format and checkers for the evaluation correspondence (C01, C15). *)
Require Import Cirbo.Model.Base Cirbo.Model.Gate Cirbo.Model.Circuit Cirbo.Model.Traverse
        Cirbo.Model.Eval Cirbo.Model.History.

Definition assignment_eqb : assignment -> assignment -> bool := dict_eqb st_beq.
Definition stlist_eqb : list st -> list st -> bool := all_eqb st_beq.

(* one assignment with the implementation's three dictionary-valued results *)
Definition acase : Type :=
  (assignment * option (list label) * res assignment * res assignment * res assignment)%type.

Definition check_acase (c : circuit) (x : acase) : bool :=
  let '(a, outs, full, circ, co) := x in
  res_eqb assignment_eqb (evaluate_full_circuit c a) full
  && res_eqb assignment_eqb (evaluate_circuit c a outs) circ
  && res_eqb assignment_eqb (evaluate_circuit_outputs c a) co.

(* one Boolean input vector: evaluate, evaluate_at for every output index (and one past) *)
Definition vcase : Type := (list st * res (list st) * list (res st))%type.

Definition check_vcase (c : circuit) (x : vcase) : bool :=
  let '(vals, ev, ats) := x in
  res_eqb stlist_eqb (evaluate c vals) ev
  && all_eqb (res_eqb st_beq) (map (evaluate_at c vals) (seq 0 (length ats))) ats.

Definition eval_case : Type :=
  (circuit * list acase * list vcase * option (res (list (list st))) * option (res (dict (list st))))%type.

Definition check_eval_case (x : eval_case) : bool :=
  let '(c, acs, vcs, tbl, gtt) := x in
  forallb (check_acase c) acs && forallb (check_vcase c) vcs
  && match tbl with Some r => res_eqb (all_eqb stlist_eqb) (get_truth_table c) r | None => true end
  && match gtt with Some r => res_eqb (dict_eqb stlist_eqb) (get_gates_truth_table c) r | None => true end.
