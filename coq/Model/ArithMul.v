(* cirbo/synthesis/generation/arithmetics/multiplication.py: every multiplication mode as a builder
   program over the regenerated cells (Generated/ArithCells.v) and the summation / subtraction
   generators of C07 / C09 (Model/ArithSumN.v, ArithSumW.v, ArithSum2.v, ArithSub.v; these model the
   code repaired by fixes/D5, D6, D7, none of which changes a call made from this file: the
   multipliers pass the basis as the enum member XAIG and never call
   add_sum_two_numbers_with_shift with shift > len(a)).

     add_mul                                  partial products + add_sum_n_weighted_bits
     add_mul_alter                            shifted accumulation of the rows
     add_mul_dadda                            column compression with the Dadda height sequence
     add_mul_wallace                          rows reduced three at a time, final shifted adder
     add_mul_pow2_m1                          column by column through add_sum_pow2_m1
     last_step_sum_with_new_powers_sum        (private) weighted sum, equal widths only
     add_mul_karatsuba                        Karatsuba over add_mul_pow2_m1
     add_mul_karatsuba_with_efficient_sum     Karatsuba over last_step_sum_with_new_powers_sum
     generate_mul / MulMode                   the dispatching wrapper

   THE PARTIAL-PRODUCT MATRIX.  Every mode starts with
       for i in range(m): for j in range(n): add_gate_from_tt(a[j], b[i], '0001')
   ([pp_matrix]: m rows of n gates, created row by row).  Where the code then files the gates
   under i + j (Dadda's deques, the diagonal loops of pow2_m1) the model reads the anti-diagonals
   off the matrix ([diagonals]): row i enters at level i and is consumed head first, which lists
   c[0][k], c[1][k-1], ... in the order of the Python loops.

   PLACEHOLDERS (Wallace).  The code keeps '_PLACEHOLDER_STR_' in the cells that hold no gate and
   tests `!= PLACEHOLDER_STR` when it reads a cell.  A cell is modelled as an [option label];
   [cell_of] performs the string test at the moment a label is stored, which is equivalent.

   add_mul_wallace models the REPAIRED code (fixes/D29.patch): the last step reads row 0 and row 1 of
   the reduced matrix as two numbers; the pinned code compacted them by SKIPPING placeholders, which
   moves every gate behind an empty cell one column down (wrong products for n = 2, m >= 11); the
   repaired code fills such a cell with a constant-false gate.

   LOOPS.  `while` loops run on fuel (Err OutOfFuel); the fuel given by the entry points is
   adequate for every operand width (each iteration strictly decreases the measure the fuel is
   initialised with). *)
Require Import Cirbo.Model.Base Cirbo.Model.Gate Cirbo.Model.Circuit Cirbo.Model.Builder.
Require Import Cirbo.Generated.ArithTables Cirbo.Generated.ArithCells.
Require Import Cirbo.Model.ArithSub Cirbo.Model.ArithSum2 Cirbo.Model.ArithSumN Cirbo.Model.ArithSumW
  Cirbo.Model.ArithGen.

(* ---- the partial products ---------------------------------------------------------------------- *)
(* c[i][j] = add_gate_from_tt(circuit, a[j], b[i], '0001') *)
Definition pp_row (a : list label) (bi : label) : prog (list label) :=
  mapP (fun aj => gate_tt tt_and aj bi) a.
Definition pp_matrix (a b : list label) : prog (list (list label)) := mapP (pp_row a) b.

(* (i + j, c[i][j]) for i (rows) for j (columns), in that order *)
Fixpoint row_weights (lev : N) (row : list label) : list witem :=
  match row with
  | [] => []
  | x :: r => (lev, x) :: row_weights (N.succ lev) r
  end.
Fixpoint matrix_weights (lev : N) (c : list (list label)) : list witem :=
  match c with
  | [] => []
  | row :: rest => row_weights lev row ++ matrix_weights (N.succ lev) rest
  end.

(* the first element of every non-empty row *)
Definition heads1 {A} (rows : list (list A)) : list A :=
  flat_map (fun r => match r with x :: _ => [x] | [] => [] end) rows.

(* k anti-diagonals of a matrix whose row i starts at level i: `act` are the rows that have
   entered (what is left of them), `pend` the rows that have not *)
Fixpoint diagonals {A} (k : nat) (act pend : list (list A)) : list (list A) :=
  match k with
  | O => []
  | S k' =>
    let act1 := act ++ firstn 1 pend in
    heads1 act1 :: diagonals k' (map (@tl A) act1) (skipn 1 pend)
  end.

(* ---- add_mul ---------------------------------------------------------------------------------- *)
Definition add_mul (input_labels_a input_labels_b : list label) (big_endian : bool) : prog (list label) :=
  let a := rev_if big_endian input_labels_a in
  let b := rev_if big_endian input_labels_b in
  bdo c <- pp_matrix a b;
  bdo out <- add_sum_n_weighted_bits (BEnum XAIG) (matrix_weights 0 c);
  Ret (rev_if big_endian (map snd out)).

(* ---- add_mul_alter ---------------------------------------------------------------------------- *)
(* for i in range(2, m): res = add_sum_two_numbers_with_shift(circuit, i, res, c[i]) *)
Fixpoint alter_loop (i : nat) (res : list label) (rows : list (list label)) : prog (list label) :=
  match rows with
  | [] => Ret res
  | ci :: rest =>
    bdo r <- add_sum_two_numbers_with_shift i res ci false;
    alter_loop (S i) r rest
  end.

Definition add_mul_alter (input_labels_a input_labels_b : list label) (big_endian : bool) : prog (list label) :=
  let a := rev_if big_endian input_labels_a in
  let b := rev_if big_endian input_labels_b in
  bdo c <- pp_matrix a b;
  match c with
  | [] => Fail PyIndexError                                        (* c[0] *)
  | [c0] => Ret (rev_if big_endian c0)                             (* m == 1 *)
  | c0 :: rest => bdo r <- alter_loop 1 c0 rest; Ret (rev_if big_endian r)
  end.

(* ---- add_mul_dadda ---------------------------------------------------------------------------- *)
(* di = 2; while 3 * di // 2 < min(n, m): di = 3 * di // 2 *)
Fixpoint dadda_start (fuel di lim : nat) : nat :=
  match fuel with
  | O => di
  | S f => if (3 * di / 2 <? lim)%nat then dadda_start f (3 * di / 2)%nat lim else di
  end.

(* while len(c[i]) >= di:  half adder when len(c[i]) == di, else full adder, on the FIRST elements
   of the deque; the sum bit is appended to c[i], the carry to c[i + 1] (if there is one) *)
Fixpoint reduce_col (fuel di : nat) (has_next : bool) (cur nxt : list label)
  : prog (list label * list label) :=
  if (length cur <? di)%nat then Ret (cur, nxt)
  else match fuel with
       | O => Fail OutOfFuel
       | S f =>
         bdo st <- (if (length cur =? di)%nat
                    then match cur with
                         | x :: y :: cur' => bdo r <- add_sum2 [x; y]; bdo g <- unpack2 r; Ret (cur', g)
                         | _ => Fail PyIndexError                    (* popleft from an empty deque *)
                         end
                    else match cur with
                         | x :: y :: z :: cur' => bdo r <- add_sum3 [x; y; z]; bdo g <- unpack2 r; Ret (cur', g)
                         | _ => Fail PyIndexError
                         end);
         reduce_col f di has_next (fst st ++ [fst (snd st)])
                    (if has_next then nxt ++ [snd (snd st)] else nxt)
       end.

(* for i in range(1, n + m): <reduce column i>;  cur = column i, rest = the columns after it *)
Fixpoint dadda_cols (di : nat) (cur : list label) (rest : list (list label)) : prog (list (list label)) :=
  match rest with
  | [] => bdo r <- reduce_col (length cur) di false cur []; Ret [fst r]
  | nx :: rest' =>
    bdo r <- reduce_col (length cur) di true cur nx;
    bdo t <- dadda_cols di (snd r) rest';
    Ret (fst r :: t)
  end.

Definition dadda_pass (di : nat) (cols : list (list label)) : prog (list (list label)) :=
  match cols with
  | c0 :: c1 :: rest => bdo t <- dadda_cols di c1 rest; Ret (c0 :: t)
  | _ => Ret cols
  end.

(* while di != 1: <pass>; di = 1 if di == 2 else (2 * di + 2) // 3 *)
Fixpoint dadda_main (fuel di : nat) (cols : list (list label)) : prog (list (list label)) :=
  if (di =? 1)%nat then Ret cols
  else match fuel with
       | O => Fail OutOfFuel
       | S f =>
         bdo cols' <- dadda_pass di cols;
         dadda_main f (if (di =? 2)%nat then 1%nat else ((2 * di + 2) / 3)%nat) cols'
       end.

(* c[i].popleft() / c[i][0] *)
Definition first_of (col : list label) : prog label :=
  match col with x :: _ => Ret x | [] => Fail PyIndexError end.

Definition add_mul_dadda (input_labels_a input_labels_b : list label) (big_endian : bool) : prog (list label) :=
  let a := rev_if big_endian input_labels_a in
  let b := rev_if big_endian input_labels_b in
  let n := length a in
  let m := length b in
  bdo c <- pp_matrix a b;
  let cols := diagonals (n + m) [] c in
  if ((n =? 1) || (m =? 1))%nat then
    bdo out <- mapP first_of (firstn (m + n - 1) cols);
    Ret (rev_if big_endian out)
  else
    let di := dadda_start (Nat.min n m) 2 (Nat.min n m) in
    bdo cols' <- dadda_main (S di) di cols;
    bdo out <- mapP first_of cols';
    Ret (rev_if big_endian out).

(* ---- add_mul_wallace -------------------------------------------------------------------------- *)
Definition PLACEHOLDER_STR : label := "_PLACEHOLDER_STR_".
Definition cell : Type := option label.
Definition cell_of (l : label) : cell := if String.eqb l PLACEHOLDER_STR then None else Some l.
Definition cell_label (c : cell) : label := match c with Some l => l | None => PLACEHOLDER_STR end.
Definition cell_list (c : cell) : list label := match c with Some l => [l] | None => [] end.

(* the matrix is kept ROW-major: rows.(r).(col) = c[col][r] of the code.
   Row i of the start matrix: c[i + j][i] = the j-th partial product of row i *)
Fixpoint wallace_rows (i m : nat) (c : list (list label)) : list (list cell) :=
  match c with
  | [] => []
  | row :: rest =>
    (repeat None i ++ map cell_of row ++ repeat None (m - i)) :: wallace_rows (S i) m rest
  end.

(* one group of three rows, column by column:
     inp = the gates among c[col][row .. row + 2];  res = add_sum_n_bits(circuit, inp)
     cn[col][2 g] = res[0];  cn[col + 1][2 g + 1] = res[1]
   returns the row of sum bits and the (not yet shifted) row of carries *)
Fixpoint wallace_group (ra rb rc : list cell) : prog (list cell * list cell) :=
  match ra, rb, rc with
  | x :: ra', y :: rb', z :: rc' =>
    bdo sc <- (match cell_list x ++ cell_list y ++ cell_list z with
               | [] => Ret (None, None)
               | inp =>
                 bdo res <- add_sum_n_bits (BEnum XAIG) false inp;
                 match res with
                 | [s] => Ret (cell_of s, None)
                 | [s; cy] => Ret (cell_of s, cell_of cy)
                 | _ => Fail PyIndexError       (* never more than two result bits for <= 3 operands *)
                 end
               end);
    bdo rest <- wallace_group ra' rb' rc';
    Ret (fst sc :: fst rest, snd sc :: snd rest)
  | _, _, _ => Ret ([], [])
  end.

(* one pass of `while len(c[0]) != 2`: every complete group of three rows becomes a sum row and a
   carry row (moved one column up, the carry out of the last column is dropped); the len % 3
   remaining rows are copied *)
Fixpoint wallace_round (rows : list (list cell)) : prog (list (list cell)) :=
  match rows with
  | ra :: rb :: rc :: rest =>
    bdo sc <- wallace_group ra rb rc;
    bdo t <- wallace_round rest;
    Ret (fst sc :: (None :: removelast (snd sc)) :: t)
  | _ => Ret rows
  end.

Fixpoint wallace_loop (fuel : nat) (rows : list (list cell)) : prog (list (list cell)) :=
  if (length rows =? 2)%nat then Ret rows
  else match fuel with
       | O => Fail OutOfFuel
       | S f => bdo r <- wallace_round rows; wallace_loop f r
       end.

(* labels_a / labels_b / shift of the last loop (repaired, fixes/D29.patch): row 0 is read from column 0
   to its last gate, row 1 from its first to its last gate; an empty cell in between stands for a zero bit
   and is filled with a constant-false gate, created (once) only if there is such a cell.  [all_none r]:
   no gate from here on, i.e. the current column is beyond `last` *)
Fixpoint all_none (r : list cell) : bool :=
  match r with [] => true | None :: r' => all_none r' | Some _ :: _ => false end.
Fixpoint leading_none (r : list cell) : nat :=
  match r with None :: r' => S (leading_none r') | _ => O end.
Fixpoint has_gap (r : list cell) : bool :=
  match r with
  | [] => false
  | c :: r' => if all_none r then false else match c with None => true | Some _ => has_gap r' end
  end.
Fixpoint trim_fill (zero : label) (r : list cell) : list label :=
  match r with
  | [] => []
  | c :: r' => if all_none r then [] else (match c with Some l => l | None => zero end) :: trim_fill zero r'
  end.

Definition wallace_final (a : list label) (r0 r1 : list cell) : prog (nat * list label * list label) :=
  let shift := leading_none r1 in
  let r1' := skipn shift r1 in
  bdo zero <- (if has_gap r0 || has_gap r1'
               then bdo a0 <- nthP a 0; gate_tt tt_false a0 a0
               else Ret PLACEHOLDER_STR);                       (* not used *)
  Ret (shift, trim_fill zero r0, trim_fill zero r1').

Definition cell_at (rows : list (list cell)) (r col : nat) : prog label :=
  bdo row <- nthP rows r; bdo c <- nthP row col; Ret (cell_label c).

Definition add_mul_wallace (input_labels_a input_labels_b : list label) (big_endian : bool) : prog (list label) :=
  let a := rev_if big_endian input_labels_a in
  let b := rev_if big_endian input_labels_b in
  let n := length a in
  let m := length b in
  bdo c <- pp_matrix a b;
  let rows := wallace_rows 0 m c in
  if (n =? 1)%nat then
    bdo out <- mapP (fun i => cell_at rows i i) (seq 0 m);        (* [c[i][i] for i in range(m)] *)
    Ret (rev_if big_endian out)
  else if (m =? 1)%nat then
    bdo out <- mapP (fun i => cell_at rows 0 i) (seq 0 n);        (* [c[i][0] for i in range(n)] *)
    Ret (rev_if big_endian out)
  else if (n + m =? 0)%nat then Fail PyIndexError                 (* len(c[0]) *)
  else
    bdo rows' <- wallace_loop (length rows) rows;
    match rows' with
    | [r0; r1] =>
      bdo f <- wallace_final a r0 r1;
      let '(shift, la, lb) := f in
      bdo r <- add_sum_two_numbers_with_shift shift la lb false;
      Ret (rev_if big_endian (firstn (n + m) r))
    | _ => Fail PyIndexError
    end.

(* ---- add_mul_pow2_m1 -------------------------------------------------------------------------- *)
(* for j in range(i): if j + len(out[j]) > i: inp += out[j][i - j]      (d = i - j) *)
Fixpoint gather (d : nat) (out : list (list (list label))) : list label :=
  match out with
  | [] => []
  | oj :: rest => nth d oj [] ++ gather (pred d) rest
  end.

(* out[i] = [[inp[0]]] if len(inp) == 1 else add_sum_pow2_m1(circuit, inp) *)
Definition pow2_level (inp : list label) : prog (list (list label)) :=
  match inp with
  | [x] => Ret [[x]]
  | _ => add_sum_pow2_m1 (BEnum XAIG) false inp
  end.

(* out[i][0][0] *)
Definition first_first (o : list (list label)) : prog label :=
  bdo c0 <- nthP o 0; nthP c0 0.

Fixpoint pow2_levels (k : nat) (act pend : list (list label)) (out : list (list (list label)))
  : prog (list (list (list label))) :=
  match k with
  | O => Ret out
  | S k' =>
    let act1 := act ++ firstn 1 pend in
    bdo o <- pow2_level (heads1 act1 ++ gather (length out) out);
    pow2_levels k' (map (@tl label) act1) (skipn 1 pend) (out ++ [o])
  end.

Definition add_mul_pow2_m1 (input_labels_a input_labels_b : list label) (big_endian : bool) : prog (list label) :=
  let a := rev_if big_endian input_labels_a in
  let b := rev_if big_endian input_labels_b in
  let n := length a in
  let m := length b in
  bdo c <- pp_matrix a b;
  if (n =? 1)%nat then
    bdo out <- mapP (fun row => nthP row 0) c;                     (* [c[i][0] for i in range(m)] *)
    Ret (rev_if big_endian out)
  else if (m =? 1)%nat then
    bdo c0 <- nthP c 0; Ret (rev_if big_endian c0)
  else
    bdo c0 <- nthP c 0;
    bdo _ <- nthP c0 0;                                            (* out[0] = [[c[0][0]]] *)
    bdo out <- pow2_levels (n + m) [] c [];
    bdo res <- mapP first_first out;
    Ret (rev_if big_endian res).

(* ---- last_step_sum_with_new_powers_sum (private) ------------------------------------------------ *)
(* vector_with_powers = [(i + j, c[i][j]) for i in range(n) for j in range(m)] indexes the
   m x n matrix c as if it were n x m: IndexError unless n == m *)
Definition last_step_sum_with_new_powers_sum (input_labels_a input_labels_b : list label) (big_endian : bool)
  : prog (list label) :=
  let a := rev_if big_endian input_labels_a in
  let b := rev_if big_endian input_labels_b in
  let n := length a in
  let m := length b in
  bdo c <- pp_matrix a b;
  if (n =? 1)%nat then
    bdo out <- mapP (fun row => nthP row 0) c;
    Ret (rev_if big_endian out)
  else if (m =? 1)%nat then
    bdo c0 <- nthP c 0; Ret (rev_if big_endian c0)
  else if negb (n =? m)%nat then Fail PyIndexError
  else
    bdo res <- add_sum_n_weighted_bits (BEnum XAIG) (matrix_weights 0 c);
    bdo out <- mapP (fun i => bdo it <- nthP res i; Ret (snd it)) (seq 0 (n + m));
    Ret (rev_if big_endian out).

(* ---- Karatsuba ---------------------------------------------------------------------------------- *)
(* n < 20 and n != 18 *)
Definition kara_small (n : nat) : bool := (n <? 20)%nat && negb (n =? 18)%nat.

(* while n != len(b): b.append(add_gate_from_tt(circuit, a[0], a[0], '0110'))   (k = n - len(b)) *)
Fixpoint kara_pad (k : nat) (a : list label) : prog (list label) :=
  match k with
  | O => Ret []
  | S k' =>
    bdo a0 <- nthP a 0;
    bdo z <- gate_tt tt_xor a0 a0;
    bdo r <- kara_pad k' a;
    Ret (z :: r)
  end.

Section Karatsuba.
  (* add_mul_pow2_m1 or last_step_sum_with_new_powers_sum, called with big_endian = False *)
  Variable base : list label -> list label -> prog (list label).

  Fixpoint kara (fuel : nat) (input_labels_a input_labels_b : list label) (big_endian : bool)
    : prog (list label) :=
    match fuel with
    | O => Fail OutOfFuel
    | S f =>
      let a := rev_if big_endian input_labels_a in
      let b := rev_if big_endian input_labels_b in
      let out_size := (length a + length b - (if ((length a =? 1) || (length b =? 1))%nat then 1 else 0))%nat in
      let '(a, b) := if (length a <? length b)%nat then (b, a) else (a, b) in
      let n := length a in
      bdo zs <- kara_pad (n - length b) a;
      let b := b ++ zs in
      if kara_small n then
        bdo r <- base a b;
        Ret (rev_if big_endian (firstn out_size r))
      else
        let mid := (n / 2)%nat in
        let a1 := skipn mid a in          (* a = input_labels_a[mid:] *)
        let a0 := firstn mid a in         (* b = input_labels_a[:mid] *)
        let b1 := skipn mid b in          (* c = input_labels_b[mid:] *)
        let b0 := firstn mid b in         (* d = input_labels_b[:mid] *)
        let mul x y := if kara_small (length x) then base x y else kara f x y false in
        bdo ac <- (if kara_small (n - mid) then base a1 b1 else kara f a1 b1 false);
        bdo bd <- (if kara_small mid then base a0 b0 else kara f a0 b0 false);
        bdo a_sum_b <- add_sum_two_numbers a1 a0 false;
        bdo c_sum_d <- add_sum_two_numbers b1 b0 false;
        bdo big_mul <- mul a_sum_b c_sum_d;
        bdo ac_sum_bd <- add_sum_two_numbers ac bd false;
        bdo res_mid <- add_sub_two_numbers big_mul ac_sum_bd false;
        bdo res <- add_sum_two_numbers_with_shift mid bd res_mid false;
        bdo final_res <- add_sum_two_numbers_with_shift (2 * mid) res ac false;
        Ret (rev_if big_endian (firstn out_size final_res))
    end.
End Karatsuba.

(* every recursive call is on operands of width ceil(n / 2) + 1 < n (n >= 18): fuel n suffices *)
Definition kara_fuel (a b : list label) : nat := S (Nat.max (length a) (length b)).

Definition add_mul_karatsuba (input_labels_a input_labels_b : list label) (big_endian : bool) : prog (list label) :=
  kara (fun x y => add_mul_pow2_m1 x y false) (kara_fuel input_labels_a input_labels_b)
       input_labels_a input_labels_b big_endian.

Definition add_mul_karatsuba_with_efficient_sum (input_labels_a input_labels_b : list label) (big_endian : bool)
  : prog (list label) :=
  kara (fun x y => last_step_sum_with_new_powers_sum x y false) (kara_fuel input_labels_a input_labels_b)
       input_labels_a input_labels_b big_endian.

(* ---- generate_mul ------------------------------------------------------------------------------- *)
Inductive mul_mode : Type := MDefault | MKaratsuba | MAlter | MDadda | MWallace | MPow2m1.

(* _process_mul *)
Definition process_mul (t : mul_mode) : list label -> list label -> bool -> prog (list label) :=
  match t with
  | MDefault => add_mul
  | MKaratsuba => add_mul_karatsuba_with_efficient_sum
  | MAlter => add_mul_alter
  | MDadda => add_mul_dadda
  | MWallace => add_mul_wallace
  | MPow2m1 => add_mul_pow2_m1
  end.

Section Gen.
  Variable fresh : N -> label.
  Variable k0 : N.

  (* ins = the labels of Circuit.bare_circuit(size_of_input_a + size_of_input_b) *)
  Definition generate_mul (ins : list label) (size_of_input_a : nat) (t : mul_mode) (big_endian : bool) :=
    gen_set_outputs fresh k0 ins
      (process_mul t (firstn size_of_input_a ins) (skipn size_of_input_a ins) big_endian).
End Gen.
