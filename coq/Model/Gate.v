(* Gate types, three-valued gate states, gates. *)
Require Import Cirbo.Model.Base.

Inductive st : Type := F | T | U.          (* False, True, Undefined *)
Scheme Equality for st.
Definition inj (b : bool) : st := if b then T else F.

Inductive gtype : Type :=
| INPUT | ALWAYS_TRUE | ALWAYS_FALSE | AND | GEQ | GT | IFF | LEQ | LIFF | LNOT
| LT | NAND | NOR | NOT | NXOR | OR | RIFF | RNOT | XOR.
Scheme Equality for gtype.

Definition all_gtypes : list gtype :=
  [INPUT; ALWAYS_TRUE; ALWAYS_FALSE; AND; GEQ; GT; IFF; LEQ; LIFF; LNOT;
   LT; NAND; NOR; NOT; NXOR; OR; RIFF; RNOT; XOR].

Lemma all_gtypes_complete g : In g all_gtypes.
Proof. destruct g; simpl; tauto. Qed.

Lemma gtype_beq_eq a b : gtype_beq a b = true <-> a = b.
Proof. split; [apply internal_gtype_dec_bl|apply internal_gtype_dec_lb]. Qed.
Lemma st_beq_eq a b : st_beq a b = true <-> a = b.
Proof. split; [apply internal_st_dec_bl|apply internal_st_dec_lb]. Qed.

(* A gate as stored in the circuit's gate map: the key is its label. *)
Record gate : Type := mkGate { gtyp : gtype; gops : list label }.

Definition gate_eqb (a b : gate) : bool :=
  gtype_beq (gtyp a) (gtyp b) && labels_eqb (gops a) (gops b).
Lemma gate_eqb_eq a b : gate_eqb a b = true <-> a = b.
Proof.
  destruct a as [t1 o1], b as [t2 o2]; unfold gate_eqb; simpl.
  rewrite andb_true_iff, gtype_beq_eq, labels_eqb_eq.
  split; [intros [-> ->]; reflexivity|inversion 1; tauto].
Qed.

(* information order on gate states: U below everything *)
Definition st_le (a b : st) : Prop := a = U \/ a = b.
Definition st_leb (a b : st) : bool := match a with U => true | _ => st_beq a b end.
Lemma st_leb_le a b : st_leb a b = true <-> st_le a b.
Proof. destruct a, b; unfold st_le; simpl; split; try tauto; try discriminate;
  intros [H|H]; discriminate. Qed.
