(* cirbo/synthesis/generation/arithmetics/subtraction.py: the borrow-ripple subtractor.
   The cells add_sub2 / add_sub3 are regenerated (Generated/ArithCells.v); the loops are
   modelled here by recursion over the operand lists.

   add_subtract_with_compare models the REPAIRED code (fixes/D8.patch): the operands are
   reversed (big_endian) BEFORE the shorter one is padded with the constant-false gate, so that
   the padding always lands on the most significant end. *)
Require Import Cirbo.Model.Base Cirbo.Model.Gate Cirbo.Model.Circuit Cirbo.Model.Builder.
Require Import Cirbo.Generated.ArithTables Cirbo.Generated.ArithCells.

(* `x, y = <list>` : ValueError unless the list has exactly two elements *)
Definition unpack2 {A} (l : list A) : prog (A * A) :=
  match l with [x; y] => Ret (x, y) | _ => Fail PyValueError end.

(* for i in range(1, n): res[i], bal[i] = add_sub3([a[i], b[i], bal[i-1]]) if i < m
                                          else add_sub2([a[i], bal[i-1]])
   a, b are the operand tails from index i on; returns (res[i:], bal[n-1]) *)
Fixpoint sub_loop (a b : list label) (bal : label) : prog (list label * label) :=
  match a with
  | [] => Ret ([], bal)
  | ai :: a' =>
    bdo r <- (match b with
              | bi :: _ => add_sub3 [ai; bi; bal] false
              | [] => add_sub2 [ai; bal] false
              end);
    bdo rb <- unpack2 r;
    bdo rs <- sub_loop a' (tl b) (snd rb);
    Ret (fst rb :: fst rs, snd rs)
  end.

(* res[0], bal[0] = add_sub2([a[0], b[0]]); the loop; IndexError when an operand is empty *)
Definition sub_ripple (a b : list label) : prog (list label * label) :=
  bdo a0 <- nthP a 0;
  bdo b0 <- nthP b 0;
  bdo r <- add_sub2 [a0; b0] false;
  bdo rb <- unpack2 r;
  bdo rs <- sub_loop (tl a) (tl b) (snd rb);
  Ret (fst rb :: fst rs, snd rs).

Definition add_sub_two_numbers (input_labels_a input_labels_b : list label) (big_endian : bool)
  : prog (list label) :=
  let a := rev_if big_endian input_labels_a in
  let b := rev_if big_endian input_labels_b in
  bdo rs <- sub_ripple a b;
  Ret (rev_if big_endian (fst rs)).

Definition tt_false : tt4 := TT false false false false.

Definition pad_to {A} (n : nat) (x : A) (l : list A) : list A := l ++ repeat x (n - length l).

Definition add_subtract_with_compare (input_labels_a input_labels_b : list label) (big_endian : bool)
  : prog (list label * label) :=
  bdo a0 <- nthP input_labels_a 0;
  bdo b0 <- nthP input_labels_b 0;
  bdo always_false <- gate_tt tt_false a0 b0;
  let a := rev_if big_endian input_labels_a in
  let b := rev_if big_endian input_labels_b in
  let n := Nat.max (length a) (length b) in
  let a := pad_to n always_false a in
  let b := pad_to n always_false b in
  (* validate_equal_sizes(a, b) cannot fail here *)
  bdo rs <- sub_ripple a b;
  Ret (rev_if big_endian (fst rs), snd rs).
