(* Fixed prelude of translator/t18_sum_gen.py (hand written, NOT derived from the source), on top of
   Model/PyPrims.v: the Python built-ins and library calls that summation.py uses in addition to those of the
   C09 generators.

   Taken from the hand model AS IS (so that T18 models them "exactly as the hand model does"):
     gen_basis / basis_arg / upper           Model/ArithSumN.v   GenerationBasis members, the value passed as
                                                                 `basis` (an enum member or a str), str.upper on ASCII
     sl_add / sl_of_list                     Model/ArithSumW.v   sortedcontainers.SortedList.add (insert after the
                                                                 elements that are not greater) / SortedList(iterable)
   A SortedList is the Coq list of its elements in order; the order of tuples is Python's lexicographic one
   (py_lex_ltb), of ints Z.ltb, of str String.ltb (code points; exact for ASCII labels, as in the hand model). *)
Require Import Cirbo.Model.Base Cirbo.Model.Gate Cirbo.Model.Circuit Cirbo.Model.Builder Cirbo.Model.PyPrims.
Require Import Cirbo.Model.ArithSumN Cirbo.Model.ArithSumW.
From Coq Require Import ZArith Ascii.
Open Scope Z_scope.

(* l.pop()   (as a statement: the popped element is dropped; IndexError on an empty list) *)
Definition py_pop {A} (l : list A) : prog (list A) :=
  match l with [] => Fail PyIndexError | _ => Ret (removelast l) end.

(* a bound of a slice with step -1: negative counts from the end, then clamped to [-1, len(l) - 1] *)
Definition py_clamp_down {A} (l : list A) (i : Z) : Z :=
  let j := py_pos l i in
  if j <? 0 then -1 else if j >=? py_len l then py_len l - 1 else j.

(* l[lo:hi:-1] with either bound optional *)
Definition py_slice_down {A} (l : list A) (lo hi : option Z) : list A :=
  let a := match lo with None => py_len l - 1 | Some i => py_clamp_down l i end in
  let b := match hi with None => -1 | Some i => py_clamp_down l i end in
  flat_map (fun k => match nth_error l (Z.to_nat k) with Some x => [x] | None => [] end) (py_range_down a b).

(* x, y, z = l  (ValueError unless len(l) == 3) *)
Definition py_unpack3 {A} (l : list A) : prog (A * A * A) :=
  match l with [x; y; z] => Ret (x, y, z) | _ => Fail PyValueError end.

(* max(l) of a list of ints (ValueError on an empty list) *)
Definition py_max (l : list Z) : prog Z :=
  match l with [] => Fail PyValueError | x :: r => Ret (fold_left Z.max r x) end.

(* while <cond>: <body> with a condition that may raise and a body that may `break` / `continue`:
   the body returns LNext (fell off the end, or `continue`) or LBreak *)
Inductive lctl (S : Type) : Type :=
| LNext (s : S)
| LBreak (s : S).
Arguments LNext {S} s.
Arguments LBreak {S} s.

Fixpoint py_while_c {S} (fuel : nat) (cond : S -> prog bool) (body : S -> prog (lctl S)) (s : S) : prog S :=
  bdo c <- cond s;
  if c then
    match fuel with
    | O => Fail OutOfFuel
    | Datatypes.S fuel' =>
      bdo r <- body s;
      match r with
      | LNext s' => py_while_c fuel' cond body s'
      | LBreak s' => Ret s'
      end
    end
  else Ret s.

(* ---- tuples: Python compares them lexicographically ------------------------------------------ *)
Definition py_lex_ltb {A B} (ltA eqA : A -> A -> bool) (ltB : B -> B -> bool) (x y : A * B) : bool :=
  ltA (fst x) (fst y) || (eqA (fst x) (fst y) && ltB (snd x) (snd y)).
Definition py_pair_eqb {A B} (eqA : A -> A -> bool) (eqB : B -> B -> bool) (x y : A * B) : bool :=
  eqA (fst x) (fst y) && eqB (snd x) (snd y).

(* ---- sortedcontainers.SortedList ----------------------------------------------------------------- *)
(* SortedList.discard(x): removes one element equal to x, if there is one (the leftmost: bisect_left) *)
Fixpoint py_sl_discard {A} (eqb : A -> A -> bool) (x : A) (l : list A) : list A :=
  match l with
  | [] => []
  | y :: r => if eqb x y then r else y :: py_sl_discard eqb x r
  end.

(* ---- GenerationBasis ------------------------------------------------------------------------------ *)
Definition gen_basis_eqb (a b : gen_basis) : bool :=
  match a, b with XAIG, XAIG => true | AIG, AIG => true | _, _ => false end.

(* ---- itertools.zip_longest( *ls) and filter(None, .) ------------------------------------------------- *)
(* zip_longest( *ls): tuple k holds element k of every list, None where a list is too short *)
Definition py_zip_longest {A} (ls : list (list A)) : list (list (option A)) :=
  map (fun k => map (fun l => nth_error l k) ls) (seq 0 (fold_right Nat.max 0%nat (map (@length A) ls))).

(* filter(None, x) on labels: drops None and the empty string (the falsy values) *)
Definition py_filter_none (x : list (option label)) : list label :=
  flat_map (fun o => match o with
                     | Some s => if String.eqb s "" then [] else [s]
                     | None => []
                     end) x.
