(* CNF formulas as cirbo.sat.cnf stores them (CnfRaw = list[list[int]]): a literal is a
   non-zero integer, variable v > 0, negation -v.  Satisfaction under a valuation of the
   variables, and the few Python built-ins the regenerated clause templates
   (Generated/Tseytin.v) are written with. *)
Require Import Cirbo.Model.Base.
Local Open Scope Z_scope.

Definition lit := Z.
Definition clause := list Z.
Definition cnf := list (list Z).

(* value of a literal under sigma : variable -> bool *)
Definition lval (sigma : Z -> bool) (l : Z) : bool :=
  if l <? 0 then negb (sigma (- l)) else sigma l.

Definition csat (sigma : Z -> bool) (c : clause) : bool := existsb (lval sigma) c.
Definition sat (sigma : Z -> bool) (f : cnf) : bool := forallb (csat sigma) f.

Definition clause_eqb : clause -> clause -> bool := all_eqb Z.eqb.
Definition cnf_eqb : cnf -> cnf -> bool := all_eqb clause_eqb.

(* ---- Python built-ins used by the templates ------------------------------------ *)

(* itertools.product(vals, repeat=n): tuples in lexicographic order, first position slowest *)
Fixpoint py_product_repeat (vals : list Z) (n : nat) : list (list Z) :=
  match n with
  | O => [[]]
  | S n' => flat_map (fun v => map (cons v) (py_product_repeat vals n')) vals
  end.

(* seq.count(x) *)
Definition py_count (l : list Z) (x : Z) : Z :=
  Z.of_nat (List.length (filter (Z.eqb x) l)).

(* truth value of an int in a condition *)
Definition py_truthy (x : Z) : bool := negb (x =? 0).

(* lst[i] for a literal index i >= 0 *)
Definition py_index (l : list Z) (i : nat) : res Z := nth_res l i.
