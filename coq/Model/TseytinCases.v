(* Case formats and checkers for the Tseytin correspondence (C05). *)
Require Import Cirbo.Model.Base Cirbo.Model.Gate Cirbo.Model.Circuit Cirbo.Model.History
        Cirbo.Model.Cnf Cirbo.Model.TseytinAlg.
Require Import Cirbo.Generated.Tseytin.
Local Open Scope Z_scope.

(* (circuit, `outputs` argument, the implementation's get_raw() or its exception,
    the implementation's saved_lits (label -> variable, insertion order) when it was observed) *)
Definition tseytin_case : Type :=
  (circuit * option (list Z) * res (list (list Z)) * option (dict Z))%type.

Definition check_tseytin_case (x : tseytin_case) : bool :=
  let '(c, outs, expected, saved_lits) := x in
  match tseytin c outs, expected with
  | Ok (f, lit), Ok raw =>
    cnf_eqb f raw && match saved_lits with Some d => dict_eqb Z.eqb lit d | None => true end
  | Err e, Err e' => err_beq e e'
  | _, _ => false
  end.

(* (python function name, top literal, operand literals, appended clauses or exception) *)
Definition template_case : Type := (string * Z * list Z * res (list (list Z)))%type.

Definition check_template_case (x : template_case) : bool :=
  let '(name, top, lits, expected) := x in
  match template_by_name name with
  | Some f => res_eqb cnf_eqb (f top lits) expected
  | None => false
  end.
