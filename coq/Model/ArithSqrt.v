(* cirbo/synthesis/generation/arithmetics/sqrt.py: digit-by-digit square root. *)
Require Import Cirbo.Model.Base Cirbo.Model.Gate Cirbo.Model.Circuit Cirbo.Model.Builder.
Require Import Cirbo.Generated.ArithTables Cirbo.Model.ArithSub Cirbo.Model.ArithSum2.

(* for i in range(2*st, n): v[i] = OR(LT(per, alt[i-2*st]), AND(v[i], per)) *)
Fixpoint sel_loop (per : label) (alt hi : list label) : prog (list label) :=
  match hi with
  | [] => Ret []
  | h :: hi' =>
    bdo s <- nthP alt 0;
    bdo t1 <- gate_tt tt_lt per s;
    bdo t2 <- gate_tt tt_and h per;
    bdo g <- gate_tt tt_or t1 t2;
    bdo rest <- sel_loop per (tl alt) hi';
    Ret (g :: rest)
  end.

Definition sqrt_stage (ZERO UNO : label) (st : nat) (xc : list label * list label)
  : prog (list label * list label) :=
  let '(x, c) := xc in
  let k := (2 * st)%nat in
  bdo sm0 <- add_sum_two_numbers (skipn k c) [UNO] false;
  let sm := removelast sm0 in
  bdo sp <- add_subtract_with_compare (skipn k x) sm false;
  let per := snd sp in
  bdo xhi <- sel_loop per (fst sp) (skipn k x);
  let x' := firstn k x ++ xhi in
  let c1 := tl c ++ [ZERO] in
  bdo sm1 <- add_sum_two_numbers (skipn k c1) [UNO] false;
  bdo chi <- sel_loop per (removelast sm1) (skipn k c1);
  Ret (x', firstn k c1 ++ chi).

(* for st in range(half - 1, -1, -1) *)
Fixpoint sqrt_loop (ZERO UNO : label) (half : nat) (xc : list label * list label)
  : prog (list label * list label) :=
  match half with
  | O => Ret xc
  | S st => bdo xc' <- sqrt_stage ZERO UNO st xc; sqrt_loop ZERO UNO st xc'
  end.

Definition add_sqrt (input_labels : list label) (big_endian : bool) : prog (list label) :=
  let n := length input_labels in
  let half := (n / 2)%nat in
  let x := rev_if big_endian input_labels in
  bdo x0 <- nthP x 0;
  bdo ZERO <- gate_tt tt_xor x0 x0;
  bdo UNO <- gate_tt tt_nxor x0 x0;
  let odd := Nat.odd n in
  let half := if odd then S half else half in
  let n := if odd then S n else n in
  let x := if odd then x ++ [ZERO] else x in
  let c := repeat ZERO n in
  bdo xc <- sqrt_loop ZERO UNO half (x, c);
  Ret (rev_if big_endian (firstn half (snd xc))).
