(* Well-formedness of a circuit state (the invariant of C02) as a Prop and as an
   executable boolean check evaluated on dumped implementation states. *)
Require Import Cirbo.Model.Base Cirbo.Model.Gate Cirbo.Model.Den Cirbo.Model.Circuit.

Definition ops_of (c : circuit) (u : label) : list label :=
  match dget (gates c) u with Some g => gops g | None => [] end.
Definition users_of (c : circuit) (l : label) : list label :=
  match dget (users c) l with Some us => us | None => [] end.

Record WF (c : circuit) : Prop := mkWF {
  wf_gkeys : NoDup (dkeys (gates c));
  wf_ukeys : NoDup (dkeys (users c));
  wf_bkeys : NoDup (dkeys (blocks c));
  (* every operand and every output names an existing gate *)
  wf_ops : forall l g o, dget (gates c) l = Some g -> In o (gops g) -> has_gate c o = true;
  wf_outs : forall o, In o (outputs c) -> has_gate c o = true;
  (* the users index is exactly the inverse operand relation, as a multiset *)
  wf_users : forall l u, count u (users_of c l) = count l (ops_of c u);
  (* the input list is exactly the INPUT gates, each once *)
  wf_inputs_nodup : NoDup (inputs c);
  wf_inputs : forall l, In l (inputs c) <->
                        exists g, dget (gates c) l = Some g /\ gtyp g = INPUT;
  (* acyclic: a rank strictly increasing along operand edges *)
  wf_acyclic : exists rank : label -> nat,
      forall l g o, dget (gates c) l = Some g -> In o (gops g) -> rank o < rank l;
  (* block member, input and output labels exist *)
  wf_blocks : forall b blk l, dget (blocks c) b = Some blk ->
                              In l (bgates blk ++ binputs blk ++ boutputs blk) -> has_gate c l = true }.

(* every gate's operand count is accepted by its operator (kept separate: mutators do
   not enforce it) *)
Definition arity_ok (c : circuit) : Prop :=
  forall l g, dget (gates c) l = Some g -> gtyp g <> INPUT ->
              den_accepts (gtyp g) (length (gops g)) = true.

(* ---------------- executable version ---------------- *)
(* count u (users_of l) = count l (ops_of u) for all l u: it is enough to check the pairs
   where one side is positive, i.e. (l, u) with u in users_of l, and (o, u) with o in ops_of u *)
Definition users_okb (c : circuit) : bool :=
  forallb (fun kv : label * list label =>
             forallb (fun u => Nat.eqb (count u (snd kv)) (count (fst kv) (ops_of c u))) (snd kv))
          (users c)
  && forallb (fun kg : label * gate =>
                forallb (fun o => Nat.eqb (count (fst kg) (users_of c o)) (count o (gops (snd kg))))
                        (gops (snd kg)))
             (gates c).

(* one round: labels all of whose operands are already resolved *)
Definition resolve_round (c : circuit) (done : list label) : list label :=
  map fst (filter (fun kg => forallb (fun o => memb o done) (gops (snd kg))) (gates c)).

Fixpoint resolve (n : nat) (c : circuit) (done : list label) : list label :=
  match n with O => done | S n' => resolve n' c (resolve_round c done) end.

Definition acyclicb (c : circuit) : bool :=
  Nat.eqb (length (resolve (size c) c [])) (size c).

Definition wfb (c : circuit) : bool :=
  nodupb (dkeys (gates c)) && nodupb (dkeys (users c)) && nodupb (dkeys (blocks c))
  && forallb (fun kg => forallb (has_gate c) (gops (snd kg))) (gates c)
  && forallb (has_gate c) (outputs c)
  && users_okb c
  && nodupb (inputs c)
  && forallb (is_input_gate c) (inputs c)
  && forallb (fun kg => negb (gtype_beq (gtyp (snd kg)) INPUT) || memb (fst kg) (inputs c)) (gates c)
  && acyclicb c
  && forallb (fun kb => forallb (has_gate c) (bgates (snd kb) ++ binputs (snd kb) ++ boutputs (snd kb))) (blocks c).
