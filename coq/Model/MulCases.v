(* Correspondence cases for the multipliers and squarers of C08: a host circuit, the uuid counter,
   one call, and the implementation's result (returned labels, full circuit state, counter; or the
   error kind).  Labels are renamed as for C07 (Model/SumCases.v [hex_label]: the weighted sums
   order their work lists by label string, so the renaming must preserve the string order).

   For the large netlists the same functions are run through an extracted OCaml program
   ([mul_digest]: the model's result as a flat list of strings that the harness compares with the
   implementation's state line by line). *)
Require Import Cirbo.Model.Base Cirbo.Model.Gate Cirbo.Model.Circuit Cirbo.Model.History
  Cirbo.Model.Builder.
Require Import Cirbo.Generated.ArithTables Cirbo.Generated.ArithCells.
Require Import Cirbo.Model.ArithSub Cirbo.Model.ArithSum2 Cirbo.Model.ArithSumN Cirbo.Model.ArithSumW
  Cirbo.Model.ArithGen Cirbo.Model.SumCases Cirbo.Model.ArithMul Cirbo.Model.ArithSquare.

Inductive mulfn : Type :=
| FMul | FAlter | FDadda | FWallace | FPow2m1 | FKaratsuba | FKaratsubaEff | FLastStep.

Definition run_mulfn (f : mulfn) : list label -> list label -> bool -> prog (list label) :=
  match f with
  | FMul => add_mul | FAlter => add_mul_alter | FDadda => add_mul_dadda | FWallace => add_mul_wallace
  | FPow2m1 => add_mul_pow2_m1 | FKaratsuba => add_mul_karatsuba
  | FKaratsubaEff => add_mul_karatsuba_with_efficient_sum
  | FLastStep => last_step_sum_with_new_powers_sum
  end.

Inductive mcall : Type :=
| MCMul (f : mulfn) (a b : list label) (be : bool)
| MCSquare (t : square_mode) (x : list label) (be : bool).

Definition run_mcall (c : mcall) : prog (list label) :=
  match c with
  | MCMul f a b be => run_mulfn f a b be
  | MCSquare t x be => process_square t x be
  end.

Definition mul_result : Type := list label * circuit * N.
Definition mul_result_eqb (a b : mul_result) : bool :=
  let '(la, ca, ka) := a in
  let '(lb, cb, kb) := b in
  labels_eqb la lb && circuit_eqb ca cb && N.eqb ka kb.

Definition mul_case : Type := circuit * N * mcall * res mul_result.

Definition run_mul_case (host : circuit) (k0 : N) (call : mcall) : res mul_result :=
  run_on hex_label (run_mcall call) host k0.

Definition check_mul_case (x : mul_case) : bool :=
  let '(host, k0, call, expected) := x in
  res_eqb mul_result_eqb (run_mul_case host k0 call) expected.

(* the generate_* wrappers *)
Inductive mgcall : Type :=
| GMul (ins : list label) (size_a : nat) (t : mul_mode) (be : bool)
| GSquare (ins : list label) (t : square_mode) (be : bool).

Definition run_mgcall (k0 : N) (g : mgcall) : res circuit :=
  match g with
  | GMul ins sa t be => generate_mul hex_label k0 ins sa t be
  | GSquare ins t be => generate_square hex_label k0 ins t be
  end.

Definition mgen_case : Type := N * mgcall * res circuit.
Definition check_mgen_case (x : mgen_case) : bool :=
  let '(k0, g, expected) := x in res_eqb circuit_eqb (run_mgcall k0 g) expected.
