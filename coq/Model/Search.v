(* Exact synthesis by SAT (cirbo/synthesis/circuit_search.py, class CircuitFinderSat).

   Hand-written executable model of
     - the CNF encoding: _init_default_cnf_formula and every clause family, fix_gate,
       forbid_wire, need_normalized, get_cnf           (encode)
     - the decoding of a SAT model into a circuit: _get_circuit_by_model   (decode)
     - find_circuit, with the SAT solver as a parameter                     (find_circuit)
     - the class of circuits the property text describes                    (Valid, validb)

   Variables are STRUCTURED (VS g a b | VG h g | VX g t | VF g p q); the implementation
   names them 's_g_a_b', 'g_h_g', 'x_g_t', 'f_g_p_q' in a pysat IDPool and the harness
   inverts the pool.  A literal is (sign, variable): Python's `(1 if bit else -1) * v`
   is (bit, v).

   The model is of the code REPAIRED by fixes/D14.patch:
     - fix_gate(g, second_predecessor=k) alone constrains gate g to read k (pinned code:
       no clause at all);
     - decoding reads a gate-type variable that occurs in no clause as False (pinned
       code: AssertionError when every row is a don't-care and no operation is forbidden).
   No proofs here (Proofs/Search*.v). *)
Require Import Cirbo.Model.Base Cirbo.Model.Gate Cirbo.Model.Den.
Local Open Scope nat_scope.

(* ------------------------------------------------------------------ *)
(* 4-bit truth tables of binary operations: (f 0 0, f 0 1, f 1 0, f 1 1), i.e. index 2p+q
   as in Operation.value[i] <-> f_{g, i // 2, i % 2} and in itertools.product(range(2), repeat=2) *)
Definition tt4 : Type := (bool * bool * bool * bool)%type.

Definition tt_get (t : tt4) (p q : bool) : bool :=
  let '(t00, t01, t10, t11) := t in
  if p then (if q then t11 else t10) else (if q then t01 else t00).

Definition tt4_eqb (s t : tt4) : bool :=
  let '(a, b, c, d) := s in let '(a', b', c', d') := t in
  Bool.eqb a a' && Bool.eqb b b' && Bool.eqb c c' && Bool.eqb d d'.

Definition pq4 : list (bool * bool) := [(false, false); (false, true); (true, false); (true, true)].

Definition all_tt4 : list tt4 :=
  flat_map (fun a => flat_map (fun b => flat_map (fun c => map (fun d => (a, b, c, d))
    [false; true]) [false; true]) [false; true]) [false; true].

(* gate_type.operator(bool(a), bool(b)) for (a, b) in product(range(2), repeat=2): by C01 the
   operator on Booleans is the denotation; None = TypeError / GateTypeNoOperatorError *)
Definition fix_table (g : gtype) : option tt4 :=
  match den g [false; false], den g [false; true], den g [true; false], den g [true; true] with
  | Some a, Some b, Some c, Some d => Some (a, b, c, d)
  | _, _, _, _ => None
  end.

(* ------------------------------------------------------------------ *)
(* variables, literals, clauses *)
Inductive var : Type :=
| VS (g a b : nat)          (* s_g_a_b : gate g reads gates a < b *)
| VG (h g : nat)            (* g_h_g   : output h is taken at gate g *)
| VX (g t : nat)            (* x_g_t   : value of gate g on input row t *)
| VF (g : nat) (p q : bool) (* f_g_p_q : gate g's operation on (p, q) *).

Definition var_eqb (u v : var) : bool :=
  match u, v with
  | VS g a b, VS g' a' b' => (g =? g') && (a =? a') && (b =? b')
  | VG h g, VG h' g' => (h =? h') && (g =? g')
  | VX g t, VX g' t' => (g =? g') && (t =? t')
  | VF g p q, VF g' p' q' => (g =? g') && Bool.eqb p p' && Bool.eqb q q'
  | _, _ => false
  end.

Definition lit : Type := (bool * var)%type.
Definition pos (v : var) : lit := (true, v).
Definition neg (v : var) : lit := (false, v).
Definition lneg (l : lit) : lit := (negb (fst l), snd l).
Definition clause : Type := list lit.

Definition lit_eqb (l m : lit) : bool := Bool.eqb (fst l) (fst m) && var_eqb (snd l) (snd m).
Definition clause_eqb : clause -> clause -> bool := all_eqb lit_eqb.
Definition cnf_eqb : list clause -> list clause -> bool := all_eqb clause_eqb.

Definition asg : Type := var -> bool.
Definition lit_holds (s : asg) (l : lit) : Prop := s (snd l) = fst l.
Definition clause_holds (s : asg) (c : clause) : Prop := exists l, In l c /\ lit_holds s l.
Definition Sat (s : asg) (f : list clause) : Prop := forall c, In c f -> clause_holds s c.

Definition lit_holdsb (s : asg) (l : lit) : bool := Bool.eqb (s (snd l)) (fst l).
Definition clause_holdsb (s : asg) (c : clause) : bool := existsb (lit_holdsb s) c.
Definition satb (s : asg) (f : list clause) : bool := forallb (clause_holdsb s) f.

(* a SAT model as the solver returns it (list of signed ids): v is true iff `id(v) in model` *)
Definition asg_of (trues : list var) : asg := fun v => existsb (var_eqb v) trues.

(* ------------------------------------------------------------------ *)
(* the problem instance *)
Inductive constraint : Type :=
| FixGate (g : nat) (first second : option nat) (gt : option gtype)
| ForbidWire (from to : nat).

Record spec : Type := mkSpec {
  sp_n : nat;                                (* boolean_function_model.input_size *)
  sp_outs : list (list (option bool));       (* get_model_truth_table(): one row per output, None = DontCare *)
  sp_r : nat;                                (* number_of_gates *)
  sp_basis : list tt4;                       (* _basis_list, as tables *)
  sp_forb : list tt4;                        (* _forbidden_operations = list(set(FULL) - set(basis)) in the
                                                order the set iteration happened to produce *)
  sp_norm : bool;                            (* need_normalized *)
  sp_pre : list constraint;                  (* fix_gate / forbid_wire calls made before the CNF was initialised *)
  sp_post : list constraint                  (* ... and after (get_cnf() already called) *)
}.

Definition sp_m (sp : spec) : nat := length (sp_outs sp).
Definition out_at (sp : spec) (h t : nat) : option bool := nth t (nth h (sp_outs sp) []) None.
Definition internal (sp : spec) : list nat := seq (sp_n sp) (sp_r sp).
Definition rows (sp : spec) : list nat := seq 0 (2 ^ sp_n sp).

Definition is_none {A} (o : option A) : bool := match o with None => true | Some _ => false end.
(* _is_dont_cares_input *)
Definition all_dc (sp : spec) (t : nat) : bool := forallb (fun row => is_none (nth t row None)) (sp_outs sp).
Definition live_rows (sp : spec) : list nat := filter (fun t => negb (all_dc sp t)) (rows sp).

(* itertools.combinations(l, 2) *)
Fixpoint comb2 {A} (l : list A) : list (A * A) :=
  match l with [] => [] | x :: xs => map (pair x) xs ++ comb2 xs end.
Definition pairs (g : nat) : list (nat * nat) := comb2 (seq 0 g).

(* _add_exactly_one_of *)
Definition exactly_one (ls : list lit) : list clause :=
  ls :: map (fun ab => [lneg (fst ab); lneg (snd ab)]) (comb2 ls).

(* (t >> (input_size - 1 - input_gate)) & 1 *)
Definition input_bit (n i t : nat) : bool := Nat.testbit t (n - 1 - i).

Definition bools : list bool := [false; true].

(* "gate operates on two gates predecessors" *)
Definition fam_preds (sp : spec) : list clause :=
  flat_map (fun g => exactly_one (map (fun ab => pos (VS g (fst ab) (snd ab))) (pairs g))) (internal sp).

(* "each output is computed somewhere" *)
Definition fam_outs (sp : spec) : list clause :=
  flat_map (fun h => exactly_one (map (fun g => pos (VG h g)) (internal sp))) (seq 0 (sp_m sp)).

(* "truth values for inputs" *)
Definition fam_inputs (sp : spec) : list clause :=
  flat_map (fun i => map (fun t => [(input_bit (sp_n sp) i t, VX i t)]) (live_rows sp)) (seq 0 (sp_n sp)).

(* "gate computes the right value" *)
Definition gate_clause (g fp sd : nat) (a b c : bool) (t : nat) : clause :=
  [neg (VS g fp sd); (negb a, VX g t); (negb b, VX fp t); (negb c, VX sd t); (a, VF g b c)].

Definition fam_gates (sp : spec) : list clause :=
  flat_map (fun g => flat_map (fun ab => flat_map (fun a => flat_map (fun b => flat_map (fun c =>
    map (gate_clause g (fst ab) (snd ab) a b c) (live_rows sp)) bools) bools) bools) (pairs g)) (internal sp).

(* outputs have the model's values on entries that are not don't-cares *)
Definition fam_outvals (sp : spec) : list clause :=
  flat_map (fun h => flat_map (fun t =>
    match out_at sp h t with
    | None => []
    | Some v => map (fun g => [neg (VG h g); (v, VX g t)]) (internal sp)
    end) (rows sp)) (seq 0 (sp_m sp)).

(* "each gate computes an allowed operation" *)
Definition forb_clause (g : nat) (op : tt4) : clause :=
  map (fun pq => (negb (tt_get op (fst pq) (snd pq)), VF g (fst pq) (snd pq))) pq4.
Definition fam_basis (sp : spec) : list clause :=
  flat_map (fun g => map (forb_clause g) (sp_forb sp)) (internal sp).

Definition fam_norm (sp : spec) : list clause :=
  if sp_norm sp then map (fun g => [neg (VF g false false)]) (internal sp) else [].

Definition default_cnf (sp : spec) : list clause :=
  fam_preds sp ++ fam_outs sp ++ fam_inputs sp ++ fam_gates sp ++ fam_outvals sp ++ fam_basis sp ++ fam_norm sp.

(* ---- fix_gate / forbid_wire ---------------------------------------- *)
Inductive cons_err : Type :=
| CE_GateIsAbsent | CE_FixGate | CE_FixGateOrder | CE_ForbidWireOrder | CE_GateType.

(* the argument checks of fix_gate / forbid_wire, in the implementation's order;
   None = the call is accepted *)
Definition check_constraint (sp : spec) (k : constraint) : option cons_err :=
  let n := sp_n sp in let r := sp_r sp in
  let is_internal g := (n <=? g) && (g <? n + r) in
  let is_gate g := g <? n + r in
  let absent (o : option nat) := match o with Some p => negb (is_gate p) | None => false end in
  match k with
  | FixGate g fp sd gt =>
      if negb (is_internal g) then Some CE_GateIsAbsent
      else if absent fp then Some CE_GateIsAbsent
      else if absent sd then Some CE_GateIsAbsent
      else match fp, sd with
           | None, None => Some CE_FixGate
           | Some f, Some s => if (s <? g) && (f <? s) then None else Some CE_FixGateOrder
           | Some p, None | None, Some p => if p <? g then None else Some CE_FixGateOrder
           end
  | ForbidWire from to =>
      if negb (is_gate from) then Some CE_GateIsAbsent
      else if negb (is_internal to) then Some CE_GateIsAbsent
      else if to <=? from then Some CE_ForbidWireOrder
      else None
  end.

(* the gate_type part is evaluated after the predecessor clauses were appended *)
Definition check_constraint_type (k : constraint) : option cons_err :=
  match k with
  | FixGate _ _ _ (Some t) => if is_none (fix_table t) then Some CE_GateType else None
  | _ => None
  end.

Definition constraint_ok (sp : spec) (k : constraint) : bool :=
  is_none (check_constraint sp k) && is_none (check_constraint_type k).

Definition reads_neither (k : nat) (ab : nat * nat) : bool := negb (fst ab =? k) && negb (snd ab =? k).

Definition cons_clauses (k : constraint) : list clause :=
  match k with
  | FixGate g fp sd gt =>
      (match fp, sd with
       | Some f, Some s => [[pos (VS g f s)]]
       | Some p, None | None, Some p =>
           map (fun ab => [neg (VS g (fst ab) (snd ab))]) (filter (reads_neither p) (pairs g))
       | None, None => []
       end) ++
      (match gt with
       | None => []
       | Some t => match fix_table t with
                   | Some tb => map (fun pq => [(tt_get tb (fst pq) (snd pq), VF g (fst pq) (snd pq))]) pq4
                   | None => []
                   end
       end)
  | ForbidWire from to =>
      map (fun o => [neg (VS to (Nat.min o from) (Nat.max o from))])
          (filter (fun o => negb (o =? from)) (seq 0 to))
  end.

(* get_cnf() *)
Definition encode (sp : spec) : list clause :=
  flat_map cons_clauses (sp_pre sp) ++ default_cnf sp ++ flat_map cons_clauses (sp_post sp).

(* ------------------------------------------------------------------ *)
(* circuits of the searched shape: gate number i (0-based) is gate n+i of the implementation *)
Record sgate : Type := mkSG { ga : nat; gb : nat; gtt : tt4 }.
Record sckt : Type := mkCkt { ck_gates : list sgate; ck_outs : list nat }.

Definition sgate_eqb (x y : sgate) : bool :=
  (ga x =? ga y) && (gb x =? gb y) && tt4_eqb (gtt x) (gtt y).
Definition sckt_eqb (x y : sckt) : bool :=
  all_eqb sgate_eqb (ck_gates x) (ck_gates y) && all_eqb Nat.eqb (ck_outs x) (ck_outs y).

(* _get_circuit_by_model: the LAST pair whose s-variable is in the model wins *)
Definition find_pair (s : asg) (g : nat) : option (nat * nat) :=
  fold_left (fun acc ab => if s (VS g (fst ab) (snd ab)) then Some ab else acc) (pairs g) None.

Definition decode_gate (s : asg) (g : nat) : res sgate :=
  match find_pair s g with
  | Some ab => Ok (mkSG (fst ab) (snd ab)
                    (s (VF g false false), s (VF g false true), s (VF g true false), s (VF g true true)))
  | None => Err CircuitValidationError        (* operand 'sNone' does not exist *)
  end.

Definition decode (sp : spec) (s : asg) : res sckt :=
  do gs <- mapM (decode_gate s) (internal sp);
  Ok (mkCkt gs (flat_map (fun h => filter (fun g => s (VG h g)) (internal sp)) (seq 0 (sp_m sp)))).

Definition has_empty_clause (f : list clause) : bool :=
  existsb (fun c => match c with [] => true | _ => false end) f.

(* find_circuit without the database shortcut; `solve` is _solve_cnf *)
Definition find_circuit (solve : list clause -> option asg) (sp : spec) : res sckt :=
  let f := encode sp in
  if has_empty_clause f then Err NoSolutionError
  else match solve f with
       | None => Err NoSolutionError
       | Some s => decode sp s
       end.

(* ------------------------------------------------------------------ *)
(* evaluation of a circuit of the searched shape on input row t: list of the values of
   gates 0 .. n+r-1 (inputs first) *)
Definition eval_step (vals : list bool) (g : sgate) : list bool :=
  vals ++ [tt_get (gtt g) (nth (ga g) vals false) (nth (gb g) vals false)].
Definition eval_from (vals : list bool) (gs : list sgate) : list bool := fold_left eval_step gs vals.
Definition input_vals (n t : nat) : list bool := map (fun i => input_bit n i t) (seq 0 n).
Definition value (n : nat) (gs : list sgate) (t j : nat) : bool := nth j (eval_from (input_vals n t) gs) false.

(* ------------------------------------------------------------------ *)
(* THE CLASS OF THE PROPERTY TEXT *)
Definition gate_ok (sp : spec) (i : nat) (g : sgate) : Prop :=
  ga g < gb g /\ gb g < sp_n sp + i                       (* reads two distinct inputs / earlier gates *)
  /\ In (gtt g) (sp_basis sp)                             (* operation of the requested basis *)
  /\ (sp_norm sp = true -> tt_get (gtt g) false false = false).

Definition preds_ok (fp sd : option nat) (g : sgate) : Prop :=
  match fp, sd with
  | Some f, Some s => ga g = f /\ gb g = s
  | Some p, None | None, Some p => ga g = p \/ gb g = p
  | None, None => True
  end.

Definition cons_holds (sp : spec) (c : sckt) (k : constraint) : Prop :=
  match k with
  | FixGate g fp sd gt =>
      exists x, nth_error (ck_gates c) (g - sp_n sp) = Some x /\ preds_ok fp sd x /\
                match gt with Some t => fix_table t = Some (gtt x) | None => True end
  | ForbidWire from to =>
      exists x, nth_error (ck_gates c) (to - sp_n sp) = Some x /\ ga x <> from /\ gb x <> from
  end.

Record Valid (sp : spec) (c : sckt) : Prop := mkValid {
  v_len : length (ck_gates c) = sp_r sp;
  v_gates : forall i g, nth_error (ck_gates c) i = Some g -> gate_ok sp i g;
  v_outs_len : length (ck_outs c) = sp_m sp;
  v_outs : forall o, In o (ck_outs c) -> sp_n sp <= o < sp_n sp + sp_r sp;   (* every output at a gate *)
  v_agree : forall h t v o, t < 2 ^ sp_n sp -> out_at sp h t = Some v ->
            nth_error (ck_outs c) h = Some o -> value (sp_n sp) (ck_gates c) t o = v;
  v_cons : forall k, In k (sp_pre sp ++ sp_post sp) -> cons_holds sp c k
}.

(* what the constructor and fix_gate / forbid_wire guarantee about a spec *)
Record spec_wf (sp : spec) : Prop := mkWf {
  wf_forb : forall t, In t (sp_forb sp) <-> ~ In t (sp_basis sp);
  wf_cons : forall k, In k (sp_pre sp ++ sp_post sp) -> constraint_ok sp k = true
}.

(* ---- executable reflection of Valid (used by the harness on returned circuits) ---- *)
Definition mem_tt (t : tt4) (l : list tt4) : bool := existsb (tt4_eqb t) l.

Fixpoint gates_okb (sp : spec) (i : nat) (gs : list sgate) : bool :=
  match gs with
  | [] => true
  | g :: gs' => (ga g <? gb g) && (gb g <? sp_n sp + i) && mem_tt (gtt g) (sp_basis sp)
                && (if sp_norm sp then negb (tt_get (gtt g) false false) else true)
                && gates_okb sp (S i) gs'
  end.

Definition opt_tt_eqb (o : option tt4) (t : tt4) : bool :=
  match o with Some s => tt4_eqb s t | None => false end.

Definition cons_holdsb (sp : spec) (c : sckt) (k : constraint) : bool :=
  match k with
  | FixGate g fp sd gt =>
      match nth_error (ck_gates c) (g - sp_n sp) with
      | Some x =>
          (match fp, sd with
           | Some f, Some s => (ga x =? f) && (gb x =? s)
           | Some p, None | None, Some p => (ga x =? p) || (gb x =? p)
           | None, None => true
           end) &&
          (match gt with Some t => opt_tt_eqb (fix_table t) (gtt x) | None => true end)
      | None => false
      end
  | ForbidWire from to =>
      match nth_error (ck_gates c) (to - sp_n sp) with
      | Some x => negb (ga x =? from) && negb (gb x =? from)
      | None => false
      end
  end.

Definition agreeb (sp : spec) (c : sckt) : bool :=
  forallb (fun ho =>
    forallb (fun t => match out_at sp (fst ho) t with
                      | Some v => Bool.eqb (value (sp_n sp) (ck_gates c) t (snd ho)) v
                      | None => true
                      end) (rows sp))
    (combine (seq 0 (sp_m sp)) (ck_outs c)).

Definition validb (sp : spec) (c : sckt) : bool :=
  (length (ck_gates c) =? sp_r sp) && gates_okb sp 0 (ck_gates c)
  && (length (ck_outs c) =? sp_m sp)
  && forallb (fun o => (sp_n sp <=? o) && (o <? sp_n sp + sp_r sp)) (ck_outs c)
  && agreeb sp c
  && forallb (cons_holdsb sp c) (sp_pre sp ++ sp_post sp).

Definition forb_okb (sp : spec) : bool :=
  forallb (fun t => Bool.eqb (mem_tt t (sp_forb sp)) (negb (mem_tt t (sp_basis sp)))) all_tt4.
Definition spec_wfb (sp : spec) : bool :=
  forb_okb sp && forallb (constraint_ok sp) (sp_pre sp ++ sp_post sp).
