(* cirbo/circuits_db/circuits_encoding.py: encode_circuit / decode_circuit
   (the REPAIRED code, fixes/D13.patch: _encode_gate rejects operand counts other than
   _get_arity, _enumerate_gates numbers the gates in dependency order).

   The encoder returns the bits it writes (BitIO.pack turns them into bytes); the decoder
   threads the bits not yet read.  `gate_identifiers` is an insertion ordered dict
   label -> N; the decoder's `gates: Dict[int, Gate]` always has the keys 0..len-1, so it
   is the list of the labels by identifier. *)
Require Import Cirbo.Model.Base Cirbo.Model.Gate Cirbo.Model.Circuit Cirbo.Model.BitIO.
Require Import Cirbo.Generated.CodecTables.
From Coq Require Import DecimalString.

(* f"gate_{gate_id}" *)
Definition gen_label (i : N) : label :=
  ("gate_" ++ NilEmpty.string_of_uint (N.to_uint i))%string.

(* int.bit_length() *)
Definition bit_length (n : nat) : nat := N.to_nat (N.size (N.of_nat n)).

(* _get_word_size *)
Definition word_size (c : circuit) : nat :=
  if (size c =? 0)%nat then 1%nat
  else bit_length (Nat.max (length (inputs c)) (Nat.max (length (outputs c)) (size c - 1))).

(* circuit.gates_number([gate.INPUT]) *)
Definition intermediates (c : circuit) : nat :=
  length (filter (fun kg : label * gate => negb (gtype_beq (gtyp (snd kg)) INPUT)) (gates c)).

(* ---- _enumerate_gates (repaired) ---- *)
Definition ids := dict N.
(* result[label] = len(result) *)
Definition ids_add (d : ids) (l : label) : ids := dset d l (N.of_nat (length d)).

(* one `for gate_label in pending` sweep *)
Fixpoint enum_pass (c : circuit) (pending : list label) (d : ids) (postponed : list label)
  : res (ids * list label) :=
  match pending with
  | [] => Ok (d, postponed)
  | l :: rest =>
    do g <- get_gate c l;
    if forallb (fun op => dmem d op) (gops g) then enum_pass c rest (ids_add d l) postponed
    else enum_pass c rest d (postponed ++ [l])
  end.

(* `while pending`: every round either numbers a gate or raises, so `length pending`
   rounds always suffice (Proofs/CodecFacts.enum_loop_fuel) *)
Fixpoint enum_loop (fuel : nat) (c : circuit) (pending : list label) (d : ids) : res ids :=
  match pending with
  | [] => Ok d
  | _ :: _ =>
    match fuel with
    | O => Err OutOfFuel
    | S fuel' =>
      do r <- enum_pass c pending d [];
      if (length (snd r) =? length pending)%nat then Err CircuitEncodingError
      else enum_loop fuel' c (snd r) (fst r)
    end
  end.

Definition non_input_labels (c : circuit) : list label :=
  map fst (filter (fun kg : label * gate => negb (gtype_beq (gtyp (snd kg)) INPUT)) (gates c)).

Definition enumerate_gates (c : circuit) : res ids :=
  let d0 := fold_left ids_add (inputs c) [] in
  let pending := non_input_labels c in
  enum_loop (length pending) c pending d0.

(* gate_identifiers[label] then write_number(..., word_size) *)
Definition write_id (d : ids) (ws : nat) (l : label) : res bits :=
  match dget d l with
  | Some i => write_number i ws
  | None => Err PyKeyError
  end.

(* _encode_gate (repaired) *)
Definition encode_gate (c : circuit) (d : ids) (ws : nat) (l : label) : res bits :=
  do g <- get_gate c l;
  if gtype_beq (gtyp g) INPUT then Ok [] else
  match gate_type_to_int (gtyp g) with
  | None => Err CircuitEncodingError
  | Some code =>
    if negb (length (gops g) =? get_arity (gtyp g))%nat then Err CircuitEncodingError else
    do tb <- write_number code GATE_TYPE_BIT_SIZE;
    do ob <- mapM (write_id d ws) (gops g);
    Ok (tb ++ concat ob)
  end.

(* encode_circuit up to bytes(bit_writer) *)
Definition encode_bits (c : circuit) : res bits :=
  let ws := word_size c in
  do h <- write_byte (N.of_nat ws);
  do p1 <- write_number (N.of_nat (length (inputs c))) ws;
  do p2 <- write_number (N.of_nat (length (outputs c))) ws;
  do p3 <- write_number (N.of_nat (intermediates c)) ws;
  do d <- enumerate_gates c;
  do gb <- mapM (encode_gate c d ws) (dkeys d);
  do ob <- mapM (write_id d ws) (outputs c);
  Ok (h ++ p1 ++ p2 ++ p3 ++ concat gb ++ concat ob).

Definition encode_circuit (c : circuit) : res bytes :=
  do b <- encode_bits c; Ok (pack b).

(* ---- decoding ---- *)
(* gates.get(arg_gate_id) *)
Definition nth_label (gl : list label) (i : N) : option label :=
  if (i <? N.of_nat (length gl))%N then nth_error gl (N.to_nat i) else None.

Fixpoint read_operands (n : nat) (ws : nat) (r : bits) (gl : list label) (acc : list label)
  : res (list label * bits) :=
  match n with
  | O => Ok (acc, r)
  | S n' =>
    do ir <- read_number ws r;
    match nth_label gl (fst ir) with
    | None => Err CircuitEncodingError
    | Some l => read_operands n' ws (snd ir) gl (acc ++ [l])
    end
  end.

(* the decoder's loop state: unread bits, labels by identifier, circuit under construction *)
Definition dstate : Type := (bits * list label * circuit)%type.

(* _decode_gate *)
Definition decode_gate (ws : nat) (st : dstate) : res dstate :=
  let '(r, gl, c) := st in
  do tr <- read_number GATE_TYPE_BIT_SIZE r;
  match int_to_gate_type (fst tr) with
  | None => Err CircuitEncodingError
  | Some t =>
    let l := gen_label (N.of_nat (length gl)) in
    do or <- read_operands (get_arity t) ws (snd tr) gl [];
    do c' <- add_gate c l t (fst or);
    Ok (snd or, gl ++ [l], c')
  end.

Fixpoint iterM {S} (n : nat) (f : S -> res S) (s : S) : res S :=
  match n with
  | O => Ok s
  | S n' => do s' <- f s; iterM n' f s'
  end.

Definition decode_input (st : dstate) : res dstate :=
  let '(r, gl, c) := st in
  let l := gen_label (N.of_nat (length gl)) in
  do c' <- add_gate c l INPUT [];
  Ok (r, gl ++ [l], c').

Definition decode_output (ws : nat) (st : dstate) : res dstate :=
  let '(r, gl, c) := st in
  do ir <- read_number ws r;
  do c' <- mark_as_output c (gen_label (fst ir));
  Ok (snd ir, gl, c').

(* decode_circuit on the bit stream *)
Definition decode_bits (r : bits) : res circuit :=
  do wr <- read_byte r;
  let ws := N.to_nat (fst wr) in
  do n1 <- read_number ws (snd wr);
  do n2 <- read_number ws (snd n1);
  do n3 <- read_number ws (snd n2);
  do s1 <- iterM (N.to_nat (fst n1)) decode_input (snd n3, [], empty_circuit);
  do s2 <- iterM (N.to_nat (fst n3)) (decode_gate ws) s1;
  do s3 <- iterM (N.to_nat (fst n2)) (decode_output ws) s2;
  Ok (snd s3).

Definition decode_circuit (bs : bytes) : res circuit := decode_bits (unpack bs).
