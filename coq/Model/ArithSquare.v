(* cirbo/synthesis/generation/arithmetics/square.py: add_square_pow2_m1, add_square, generate_square.

   add_square_pow2_m1 creates the products c[i][j] = x_i x_j for i < j only (each stands for the two
   equal terms x_i x_j and x_j x_i, hence is filed one level up: level i + j + 1), puts x_i itself
   (= x_i^2) on level 2 i, and sums level by level through add_sum_pow2_m1 exactly like
   add_mul_pow2_m1.  Row i of the strict upper triangle enters at level 2 i + 2 and is consumed
   head first ([sq_levels]).

   add_square splits at n >= 48 (n not in {49, 53}):  x = a + 2^mid b,
   x^2 = a^2 + 2^(mid + 1) a b + 2^(2 mid) b^2, with a b from add_mul_karatsuba. *)
Require Import Cirbo.Model.Base Cirbo.Model.Gate Cirbo.Model.Circuit Cirbo.Model.Builder.
Require Import Cirbo.Generated.ArithTables Cirbo.Generated.ArithCells.
Require Import Cirbo.Model.ArithSub Cirbo.Model.ArithSum2 Cirbo.Model.ArithSumN Cirbo.Model.ArithSumW
  Cirbo.Model.ArithGen Cirbo.Model.ArithMul.

(* for i in range(n): for j in range(i + 1, n): c[i][j] = add_gate_from_tt(x[i], x[j], '0001')
   (row i = [c[i][i+1], ..., c[i][n-1]]) *)
Fixpoint sq_rows (xs : list label) : prog (list (list label)) :=
  match xs with
  | [] => Ret []
  | xi :: rest =>
    bdo row <- mapP (fun xj => gate_tt tt_and xi xj) rest;
    bdo rows <- sq_rows rest;
    Ret (row :: rows)
  end.

(* levels i = 2, 3, ..., : at an even level 2 t row t - 1 enters and c[t][t] = x_t is added after the
   products;  `diag` = [x_t, x_(t+1), ...] *)
Fixpoint sq_levels (k : nat) (even : bool) (act pend : list (list label)) (diag : list label)
         (d : list (list (list label))) : prog (list (list (list label))) :=
  match k with
  | O => Ret d
  | S k' =>
    let act1 := if even then act ++ firstn 1 pend else act in
    let sq := if even then firstn 1 diag else [] in
    bdo o <- pow2_level (heads1 act1 ++ sq ++ gather (length d) d);
    sq_levels k' (negb even) (map (@tl label) act1) (if even then skipn 1 pend else pend)
              (if even then skipn 1 diag else diag) (d ++ [o])
  end.

Definition add_square_pow2_m1 (input_labels : list label) (big_endian : bool) : prog (list label) :=
  let xs := rev_if big_endian input_labels in
  let n := length xs in
  if (n =? 1)%nat then Ret (rev_if big_endian xs)
  else
    bdo rows <- sq_rows xs;
    bdo x0 <- nthP xs 0;                                          (* d[0] = [[c[0][0]]] *)
    bdo zero <- gate_tt tt_false x0 x0;                           (* d[1] = [[zero]] *)
    bdo d <- sq_levels (2 * n - 2) true [] rows (skipn 1 xs) [[[x0]]; [[zero]]];
    bdo res <- mapP first_first d;
    Ret (rev_if big_endian res).

(* n < 48 or n in [49, 53] *)
Definition square_small (n : nat) : bool := (n <? 48)%nat || (n =? 49)%nat || (n =? 53)%nat.

Fixpoint square_rec (fuel : nat) (input_labels : list label) (big_endian : bool) : prog (list label) :=
  match fuel with
  | O => Fail OutOfFuel
  | S f =>
    let xs := rev_if big_endian input_labels in
    let n := length xs in
    if square_small n then
      bdo r <- add_square_pow2_m1 xs false;
      Ret (rev_if big_endian r)
    else
      let mid := (n / 2)%nat in
      let a := firstn mid xs in
      let b := skipn mid xs in
      bdo aa <- square_rec f a false;
      bdo bb <- square_rec f b false;
      bdo ab <- add_mul_karatsuba a b false;
      bdo res <- add_sum_two_numbers_with_shift (mid + 1) aa ab false;
      bdo final_res <- add_sum_two_numbers_with_shift (2 * mid) res bb false;
      Ret (rev_if big_endian (firstn (2 * n) final_res))
  end.

(* the recursive calls are on n // 2 and n - n // 2 < n bits *)
Definition add_square (input_labels : list label) (big_endian : bool) : prog (list label) :=
  square_rec (S (length input_labels)) input_labels big_endian.

Inductive square_mode : Type := SDefault | SPow2m1.

(* _process_square *)
Definition process_square (t : square_mode) : list label -> bool -> prog (list label) :=
  match t with SDefault => add_square | SPow2m1 => add_square_pow2_m1 end.

Section Gen.
  Variable fresh : N -> label.
  Variable k0 : N.
  Definition generate_square (ins : list label) (t : square_mode) (big_endian : bool) :=
    gen_set_outputs fresh k0 ins (process_square t ins big_endian).
End Gen.
