(* Public mutator calls as data, the step function, and decidable state equality
   (used by the correspondence check and by the C02 history theorem). *)
Require Import Cirbo.Model.Base Cirbo.Model.Gate Cirbo.Model.Circuit Cirbo.Model.Traverse
        Cirbo.Model.Connect.

Inductive op : Type :=
| OpEmplace (l : label) (t : gtype) (ops : list label)      (* add_gate / emplace_gate *)
| OpAddInputs (ls : list label)
| OpRemoveGate (l : label)
| OpRename (old new : label)
| OpMarkOutput (l : label)
| OpSetOutputs (ls : list label)
| OpSetInputs (ls : list label)
| OpOrderInputs (ls : list label)
| OpOrderOutputs (ls : list label)
| OpReplaceInputs (to_true to_false : list label)
| OpMakeBlock (name : label) (gs outs : list label) (ins : option (list label))
| OpMakeBlockFromSlice (name : label) (ins outs : list label)
| OpDeleteBlock (name : label)
| OpRemoveBlock (name : label)
| OpConnect (other : circuit) (tc oc : list label) (right : bool) (name : label) (add_prefix : bool)
| OpConnectLeft (other : circuit) (tc : list label) (name : label) (add_prefix : bool)
| OpConnectRight (other : circuit) (oc : list label) (name : label) (add_prefix : bool)
| OpConnectInputs (other : circuit) (name : label) (add_prefix : bool)
| OpExtend (other : circuit) (tc oc : option (list label)) (right : bool) (name : label) (add_prefix : bool)
| OpAddCircuit (other : circuit) (name : label) (add_prefix : bool)
| OpReplaceSubcircuit (sub : circuit) (imap omap : dict label) (fresh : string)
| OpIntoBench (fresh : list string)
| OpCopy
| OpBlockIntoCircuit (name : label).       (* c := c.get_block(name).into_circuit() *)

Definition step (c : circuit) (o : op) : res circuit :=
  match o with
  | OpEmplace l t ops => emplace_gate c l t ops
  | OpAddInputs ls => add_inputs c ls
  | OpRemoveGate l => remove_gate c l
  | OpRename a b => rename_gate c a b
  | OpMarkOutput l => mark_as_output c l
  | OpSetOutputs ls => set_outputs c ls
  | OpSetInputs ls => set_inputs c ls
  | OpOrderInputs ls => order_inputs c ls
  | OpOrderOutputs ls => order_outputs c ls
  | OpReplaceInputs t f => replace_inputs c t f
  | OpMakeBlock n gs outs ins => make_block c n gs outs ins
  | OpMakeBlockFromSlice n ins outs => make_block_from_slice c n ins outs
  | OpDeleteBlock n => delete_block c n
  | OpRemoveBlock n => remove_block c n
  | OpConnect o tc oc r n ap => connect_circuit c o tc oc r n ap
  | OpConnectLeft o tc n ap => connect_left c o tc n ap
  | OpConnectRight o oc n ap => connect_right c o oc n ap
  | OpConnectInputs o n ap => connect_inputs c o n ap
  | OpExtend o tc oc r n ap => extend_circuit c o tc oc r n ap
  | OpAddCircuit o n ap => add_circuit c o n ap
  | OpReplaceSubcircuit s im om f => replace_subcircuit c s im om f
  | OpIntoBench f => into_bench c f
  | OpCopy => copy_circuit c
  | OpBlockIntoCircuit n => do b <- get_block c n; block_into_circuit c b
  end.

(* ---- decidable equality of states ---- *)
Definition block_eqb (a b : block) : bool :=
  labels_eqb (binputs a) (binputs b) && labels_eqb (bgates a) (bgates b)
  && labels_eqb (boutputs a) (boutputs b).

Definition dict_eqb {V} (veqb : V -> V -> bool) (a b : dict V) : bool :=
  all_eqb (fun x y => leqb (fst x) (fst y) && veqb (snd x) (snd y)) a b.

Definition circuit_eqb (a b : circuit) : bool :=
  labels_eqb (inputs a) (inputs b) && labels_eqb (outputs a) (outputs b)
  && dict_eqb gate_eqb (gates a) (gates b)
  && dict_eqb labels_eqb (users a) (users b)
  && dict_eqb block_eqb (blocks a) (blocks b).

Lemma block_eqb_eq a b : block_eqb a b = true <-> a = b.
Proof.
  destruct a, b; unfold block_eqb; simpl.
  rewrite !andb_true_iff, !labels_eqb_eq. split; [intros [[-> ->] ->]; reflexivity|inversion 1; tauto].
Qed.

Lemma dict_eqb_eq {V} (veqb : V -> V -> bool) :
  (forall x y, veqb x y = true <-> x = y) ->
  forall a b, dict_eqb veqb a b = true <-> a = b.
Proof.
  intros H a b; unfold dict_eqb. apply all_eqb_eq.
  intros [k1 v1] [k2 v2]; simpl. rewrite andb_true_iff, leqb_eq, H.
  split; [intros [-> ->]; reflexivity|inversion 1; tauto].
Qed.

Lemma circuit_eqb_eq a b : circuit_eqb a b = true <-> a = b.
Proof.
  destruct a, b; unfold circuit_eqb; simpl.
  rewrite !andb_true_iff, !labels_eqb_eq,
    (dict_eqb_eq gate_eqb gate_eqb_eq), (dict_eqb_eq labels_eqb labels_eqb_eq),
    (dict_eqb_eq block_eqb block_eqb_eq).
  split; [intros [[[[-> ->] ->] ->] ->]; reflexivity|inversion 1; tauto].
Qed.

Definition res_eqb {A} (eqb : A -> A -> bool) (a b : res A) : bool :=
  match a, b with
  | Ok x, Ok y => eqb x y
  | Err e, Err f => err_beq e f
  | _, _ => false
  end.

(* run a history; the expected list holds, for every call, the implementation's
   result: the full state after a normal return, or the error kind (then the history ends) *)
Fixpoint run_history (c : circuit) (os : list op) (expected : list (res circuit)) : bool :=
  match os, expected with
  | [], [] => true
  | o :: os', e :: ex' =>
    let r := step c o in
    res_eqb circuit_eqb r e &&
    match r with Ok c' => run_history c' os' ex' | Err _ => match os' with [] => true | _ => false end end
  | _, _ => false
  end.

Fixpoint failing_indices_from {A} (f : A -> bool) (l : list A) (i : nat) : list nat :=
  match l with
  | [] => []
  | x :: xs => if f x then failing_indices_from f xs (S i) else i :: failing_indices_from f xs (S i)
  end.
Definition failing_indices {A} (f : A -> bool) (l : list A) : list nat := failing_indices_from f l 0.

(* states reached by the model along a history *)
Fixpoint history_states (c : circuit) (os : list op) : list circuit :=
  match os with
  | [] => []
  | o :: os' => match step c o with Ok c' => c' :: history_states c' os' | Err _ => [] end
  end.
