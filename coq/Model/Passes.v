(* The four simplification passes (minimization/simplification/*.py), the Transformer
   pipeline machinery (core/circuit/transformer.py) and cleanup. *)
Require Import Cirbo.Model.Base Cirbo.Model.Gate Cirbo.Model.Circuit Cirbo.Model.Traverse Cirbo.Model.Eval.
Require Import Cirbo.Generated.GateTypes.

(* labels handed to on_exit_hook, in order; then those handed to unvisited_hook *)
Definition exits (log : list event) : list label :=
  flat_map (fun e => match e with EvExit l => [l] | _ => [] end) log.
Definition unvisiteds (log : list event) : list label :=
  flat_map (fun e => match e with EvUnvisited l => [l] | _ => [] end) log.

(* circuit.dfs(circuit.outputs, on_exit_hook=f, unvisited_hook=f, topsort_unvisited=True) *)
Definition dfs_emission (c : circuit) (with_unvisited : bool) : res (list label) :=
  do log <- traverse DFS false c (Some (outputs c)) with_unvisited no_abort;
  Ok (exits log ++ (if with_unvisited then unvisiteds log else [])).

(* ---------------- RemoveRedundantGates ---------------- *)
Definition remove_redundant_gates (allow_inputs_removal : bool) (c : circuit) : res circuit :=
  do order <- dfs_emission c false;
  do n1 <- foldM (fun n l => do g <- get_gate c l; emplace_gate n l (gtyp g) (gops g)) order empty_circuit;
  do n2 <- (if allow_inputs_removal then Ok n1
            else add_inputs n1 (filter (fun i => negb (has_gate n1 i)) (inputs c)));
  do n3 <- set_inputs n2 (filter (fun i => memb i (inputs n2)) (inputs c));
  set_outputs n3 (outputs c).

(* ---------------- MergeUnaryOperators ---------------- *)
Definition is_not_like (t : gtype) : bool := match t with NOT | LNOT | RNOT => true | _ => false end.
Definition is_iff_like (t : gtype) : bool := match t with IFF | LIFF | RIFF => true | _ => false end.
(* _unary_to_operand_getter: itemgetter(0) for NOT LNOT IFF LIFF, itemgetter(1) for RNOT RIFF *)
Definition unary_operand (g : gate) : res label :=
  match gtyp g with
  | RNOT | RIFF => nth_res (gops g) 1
  | _ => nth_res (gops g) 0
  end.

Definition mget (m : dict label) (k : label) : label :=
  match dget m k with Some v => v | None => k end.

Record mu_maps := mkMu { mu_even : dict label; mu_odd : dict label; mu_iff : dict label }.

Definition mu_step (c : circuit) (m : mu_maps) (l : label) : res mu_maps :=
  do g <- get_gate c l;
  do m1 <- (if is_not_like (gtyp g) then
              do oper <- unary_operand g;
              let even' := match dget (mu_odd m) oper with
                           | Some p => dset (mu_even m) l p
                           | None => mu_even m end in
              Ok (mkMu even' (dset (mu_odd m) l (mget even' oper)) (mu_iff m))
            else Ok m);
  if is_iff_like (gtyp g) then
    do oper <- unary_operand g;
    Ok (mkMu (mu_even m1) (mu_odd m1) (dset (mu_iff m1) l (mget (mu_iff m1) oper)))
  else Ok m1.

Definition mu_remap (c : circuit) (m : mu_maps) (l : label) : res label :=
  do g <- get_gate c l;
  if is_not_like (gtyp g) then Ok (mget (mu_even m) l)
  else if is_iff_like (gtyp g) then Ok (mget (mu_iff m) l)
  else Ok l.

Definition merge_unary_operators (c : circuit) : res circuit :=
  do order <- top_sort true c;
  do m <- foldM (mu_step c) order (mkMu [] [] []);
  do emit <- dfs_emission c true;
  do n1 <- foldM (fun n l => do g <- get_gate c l;
                             do ops <- mapM (mu_remap c m) (gops g);
                             emplace_gate n l (gtyp g) ops) emit empty_circuit;
  do n2 <- set_inputs n1 (inputs c);
  do outs <- mapM (mu_remap c m) (outputs c);
  set_outputs n2 outs.

(* ---------------- MergeDuplicateGates ---------------- *)
(* Python builds the dict key (type, *sorted(operands)) for symmetric types; two keys are equal
   iff the types are equal and the operand tuples are equal up to permutation (resp. equal) *)
Fixpoint perm_eqb (a b : list label) : bool :=
  match a with
  | [] => match b with [] => true | _ => false end
  | x :: a' => memb x b && perm_eqb a' (remove1 x b)
  end.

Definition sig_eqb (t1 : gtype) (o1 : list label) (t2 : gtype) (o2 : list label) : bool :=
  gtype_beq t1 t2 && (if is_symmetric t1 then perm_eqb o1 o2 else labels_eqb o1 o2).

Definition sig_table := list (gtype * list label * label).
Fixpoint sig_lookup (tbl : sig_table) (t : gtype) (ops : list label) : option label :=
  match tbl with
  | [] => None
  | (t', ops', l) :: tbl' => if sig_eqb t' ops' t ops then Some l else sig_lookup tbl' t ops
  end.

Definition md_new_name (n : circuit) (tbl : sig_table) (l : label) : res label :=
  do g <- get_gate n l;
  Ok (match sig_lookup tbl (gtyp g) (gops g) with Some d => d | None => l end).

Definition merge_duplicate_gates (c : circuit) : res circuit :=
  do emit <- dfs_emission c true;
  do st <- foldM (fun (st : circuit * sig_table) l =>
             let '(n, tbl) := st in
             do g <- get_gate c l;
             if gtype_beq (gtyp g) INPUT then do n' <- add_inputs n [l]; Ok (n', tbl) else
             do ops <- mapM (md_new_name n tbl) (gops g);
             let tbl' := match sig_lookup tbl (gtyp g) ops with
                         | Some _ => tbl | None => tbl ++ [(gtyp g, ops, l)] end in
             do n' <- emplace_gate n l (gtyp g) ops;
             Ok (n', tbl')) emit (empty_circuit, []);
  let '(n1, tbl) := st in
  do n2 <- set_inputs n1 (inputs c);
  do outs <- mapM (md_new_name n2 tbl) (outputs c);
  set_outputs n2 outs.

(* ---------------- MergeEquivalentGates ---------------- *)
Definition stl_eqb : list st -> list st -> bool := all_eqb st_beq.

(* _tt_to_gates: groups in order of first appearance of the truth table *)
Fixpoint group_insert (gs : list (list st * list label)) (tt : list st) (l : label)
  : list (list st * list label) :=
  match gs with
  | [] => [(tt, [l])]
  | (tt', ls) :: gs' => if stl_eqb tt' tt then (tt', ls ++ [l]) :: gs' else (tt', ls) :: group_insert gs' tt l
  end.

Definition find_equivalent_groups (c : circuit) : res (list (list label)) :=
  do gtt <- get_gates_truth_table c;
  let gs := fold_left (fun gs (kv : label * list st) => group_insert gs (snd kv) (fst kv)) gtt [] in
  Ok (filter (fun ls => Nat.ltb 1 (length ls)) (map snd gs)).

(* index of the group containing l; _old_to_new_gate[l] is overwritten by later groups, but a
   label belongs to exactly one truth-table group *)
Fixpoint group_index (groups : list (list label)) (l : label) (i : nat) : option nat :=
  match groups with
  | [] => None
  | g :: gs => if memb l g then Some i else group_index gs l (S i)
  end.

(* keeps: group index -> representative chosen so far (_Keep.value) *)
Definition keeps := list (nat * label).
Fixpoint keep_get (k : keeps) (i : nat) : option label :=
  match k with [] => None | (j, l) :: k' => if Nat.eqb i j then Some l else keep_get k' i end.

Definition me_new_name (groups : list (list label)) (k : keeps) (l : label) : label * keeps :=
  match group_index groups l 0 with
  | None => (l, k)
  | Some i => match keep_get k i with
              | Some r => (r, k)
              | None => (l, (i, l) :: k)
              end
  end.

Fixpoint me_new_names (groups : list (list label)) (k : keeps) (ls : list label) : list label * keeps :=
  match ls with
  | [] => ([], k)
  | l :: ls' => let '(r, k1) := me_new_name groups k l in
                let '(rs, k2) := me_new_names groups k1 ls' in (r :: rs, k2)
  end.

Definition replace_equivalent_gates (c : circuit) (groups : list (list label)) : res circuit :=
  do emit <- dfs_emission c true;
  do st <- foldM (fun (st : circuit * keeps) l =>
             let '(n, k) := st in
             do g <- get_gate c l;
             let '(ops, k') := me_new_names groups k (gops g) in
             do n' <- emplace_gate n l (gtyp g) ops;
             Ok (n', k')) emit (empty_circuit, []);
  let '(n1, k) := st in
  do n2 <- set_inputs n1 (inputs c);
  set_outputs n2 (fst (me_new_names groups k (outputs c))).

Definition merge_equivalent_gates (c : circuit) : res circuit :=
  do groups <- find_equivalent_groups c;
  replace_equivalent_gates c groups.

(* ---------------- Transformer pipeline ---------------- *)
Inductive transformer : Type :=
| TRR (allow_inputs_removal : bool)
| TMU | TMD | TME
| TComp (ts : list transformer).

Definition is_leaf_idempotent (t : transformer) : bool := match t with TRR _ => true | _ => false end.

(* Transformer.__eq__ on the objects that can appear in a linearised list *)
Definition transformer_eqb (a b : transformer) : bool :=
  match a, b with
  | TRR x, TRR y => Bool.eqb x y
  | TMU, TMU | TMD, TMD | TME, TME => true
  | _, _ => false
  end.

(* as_distinct(imply_deps=True) / linearize_transformers *)
Fixpoint as_distinct (t : transformer) : list transformer :=
  match t with
  | TRR _ => [t]
  | TMU | TMD | TME => [t; TRR false]          (* post_transformers = (RemoveRedundantGates(),) *)
  | TComp ts => flat_map as_distinct ts
  end.
Definition linearize (ts : list transformer) : list transformer := flat_map as_distinct ts.

Fixpoint reduce_from (prev : option transformer) (ts : list transformer) : list transformer :=
  match ts with
  | [] => []
  | t :: ts' =>
    if is_leaf_idempotent t && match prev with Some p => transformer_eqb t p | None => false end
    then reduce_from prev ts'
    else t :: reduce_from (Some t) ts'
  end.
Definition linearize_reduce (ts : list transformer) : list transformer := reduce_from None (linearize ts).

(* a | b *)
Definition pipe (a b : transformer) : transformer :=
  match b with
  | TComp bs => TComp (as_distinct a ++ bs)
  | _ => TComp (as_distinct a ++ [b])
  end.

Definition transform_leaf (t : transformer) (c : circuit) : res circuit :=
  match t with
  | TRR a => remove_redundant_gates a c
  | TMU => merge_unary_operators c
  | TMD => merge_duplicate_gates c
  | TME => merge_equivalent_gates c
  | TComp _ => Err PyTypeError   (* never reached: linearised lists contain leaves only *)
  end.

Definition apply_linear (ts : list transformer) (c : circuit) : res circuit :=
  foldM (fun c t => transform_leaf t c) ts c.

(* Transformer.apply_transformers(circuit, transformers) ; t.transform(c) = apply [t] *)
Definition apply_transformers (c : circuit) (ts : list transformer) : res circuit :=
  apply_linear (linearize_reduce ts) c.
Definition transform (t : transformer) (c : circuit) : res circuit := apply_transformers c [t].

Definition cleanup (c : circuit) (use_heavy : bool) : res circuit :=
  apply_transformers c ([TRR false; TMU; TMD] ++ (if use_heavy then [TME] else [])).

(* ---------------- correspondence cases ---------------- *)
Require Import Cirbo.Model.History.
(* (pipeline, use transform_leaf only?, expected) *)
Definition pass_case : Type := (circuit * list (list transformer * bool * res circuit))%type.
Definition check_pass_case (x : pass_case) : bool :=
  let '(c, runs) := x in
  forallb (fun r : list transformer * bool * res circuit =>
             let '(ts, leaf_only, ex) := r in
             res_eqb circuit_eqb
               (if leaf_only then match ts with [t] => transform_leaf t c | _ => Err PyTypeError end
                else apply_transformers c ts) ex) runs.
