(* Fixed prelude of translator/t19_mul_gen.py (hand written, NOT derived from the source), on top of
   Model/PyPrims.v: the Python idioms of multiplication.py / square.py that T14 did not need, and the
   ADAPTORS through which the regenerated multipliers call the summation generators of property C07
   (hand models Model/ArithSum*.v; the translator reads only their signatures and compares the
   parameter list of each with the text the adaptor stands for).

   Python ints are Z.  The hand models of C07 take a shift / a weight as a natural number (nat / N):
   an adaptor FAILS on a negative value instead of truncating it, so that a regenerated caller that
   passes one can never be equal to a hand model that does not fail. *)
Require Import Cirbo.Model.Base Cirbo.Model.Gate Cirbo.Model.Circuit Cirbo.Model.Builder Cirbo.Model.PyPrims.
Require Import Cirbo.Model.ArithSum2 Cirbo.Model.ArithSumN Cirbo.Model.ArithSumW.
From Coq Require Import ZArith.
Open Scope Z_scope.

(* ---- collections.deque as a list: d.popleft()  (IndexError: pop from an empty deque) ------------- *)
Definition py_popleft {A} (l : list A) : prog (A * list A) :=
  match l with x :: r => Ret (x, r) | [] => Fail PyIndexError end.

(* while cond(s): s = body(s), for a condition that may raise (it indexes a list) *)
Fixpoint py_while_m {S} (fuel : nat) (cond : S -> prog bool) (body : S -> prog S) (s : S) : prog S :=
  bdo b <- cond s;
  if b then
    match fuel with
    | O => Fail OutOfFuel
    | S fuel' => bdo s' <- body s; py_while_m fuel' cond body s'
    end
  else Ret s.

(* [x for x in l if p(x)] *)
Definition py_filter {A} (p : A -> bool) (l : list A) : list A := filter p l.

(* ---- the summation generators of C07 (hand models), in the parameter order of the source ---------- *)
(* an int that the hand model takes as a natural number *)
Definition py_nat_arg (z : Z) : prog nat := if z <? 0 then Fail PyValueError else Ret (Z.to_nat z).

(* (weight, label) pairs: list[tuple[int, Label]] -> list witem *)
Fixpoint py_witems (l : list (Z * label)) : prog (list witem) :=
  match l with
  | [] => Ret []
  | (w, x) :: r =>
    if w <? 0 then Fail PyValueError
    else bdo r' <- py_witems r; Ret ((Z.to_N w, x) :: r')
  end.

(* add_sum_two_numbers_with_shift(circuit, shift, input_labels_a, input_labels_b, *, big_endian=False) *)
Definition py_add_sum_two_numbers_with_shift (shift : Z) (input_labels_a input_labels_b : list label)
           (big_endian : bool) : prog (list label) :=
  bdo sh <- py_nat_arg shift;
  add_sum_two_numbers_with_shift sh input_labels_a input_labels_b big_endian.

(* add_sum_n_weighted_bits(circuit, input_labels_with_pow, *, basis=GenerationBasis.XAIG) *)
Definition py_add_sum_n_weighted_bits (input_labels_with_pow : list (Z * label)) (basis : basis_arg)
  : prog (list witem) :=
  bdo inp <- py_witems input_labels_with_pow;
  add_sum_n_weighted_bits basis inp.

(* add_sum_n_bits(circuit, input_labels, *, basis=GenerationBasis.XAIG, big_endian=False) *)
Definition py_add_sum_n_bits (input_labels : list label) (basis : basis_arg) (big_endian : bool)
  : prog (list label) :=
  add_sum_n_bits basis big_endian input_labels.

(* add_sum_pow2_m1(circuit, input_labels, *, big_endian=False, basis=GenerationBasis.XAIG) *)
Definition py_add_sum_pow2_m1 (input_labels : list label) (big_endian : bool) (basis : basis_arg)
  : prog (list (list label)) :=
  add_sum_pow2_m1 basis big_endian input_labels.
