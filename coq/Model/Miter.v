(* sat/miter.py build_miter and generation.generate_pairwise_xor, as compositions of the
   modelled circuit operations. *)
Require Import Cirbo.Model.Base Cirbo.Model.Gate Cirbo.Model.Circuit Cirbo.Model.Connect.
From Coq Require Import DecimalString.

(* Python str(i) for a natural number *)
Definition nat_str (n : nat) : string := NilEmpty.string_of_uint (Nat.to_uint n).

(* _generate_labels(prefix, n) = [prefix + '_' + str(i) for i in range(n)] *)
Definition generate_labels (prefix : string) (n : nat) : list label :=
  map (fun i => (prefix ++ "_" ++ nat_str i)%string) (seq 0 n).

Fixpoint zip3 (a b c : list label) : list (label * label * label) :=
  match a, b, c with
  | x :: a', y :: b', z :: c' => (x, y, z) :: zip3 a' b' c'
  | _, _, _ => []
  end.

(* generate_pairwise_xor(n) *)
Definition generate_pairwise_xor (n : nat) : res circuit :=
  let xs := generate_labels "x" n in
  let ys := generate_labels "y" n in
  let rs := generate_labels "xor" n in
  do c1 <- add_inputs empty_circuit xs;
  do c2 <- add_inputs c1 ys;
  foldM (fun c (t : label * label * label) =>
           let '(x, y, r) := t in
           do c' <- add_gate c r XOR [x; y];
           mark_as_output c' r) (zip3 xs ys rs) c2.

Definition build_miter (l r : circuit) (lname rname : label) : res circuit :=
  if negb (Nat.eqb (length (inputs l)) (length (inputs r)))
     || negb (Nat.eqb (length (outputs l)) (length (outputs r)))
  then Err MiterDifferentShapesError else
  do m1 <- add_circuit empty_circuit l lname true;
  do bl <- get_block m1 lname;
  do m2 <- connect_circuit m1 r (binputs bl) (inputs r) false rname true;
  do px <- generate_pairwise_xor (length (outputs l));
  do bl2 <- get_block m2 lname;
  do br2 <- get_block m2 rname;
  do m3 <- connect_circuit m2 px (boutputs bl2 ++ boutputs br2) (inputs px) false "pairwise_xor" true;
  do bx <- get_block m3 "pairwise_xor";
  let t := if Nat.ltb 1 (length (boutputs bx)) then OR else IFF in
  do m4 <- emplace_gate m3 "big_or" t (boutputs bx);
  set_outputs m4 ["big_or"].

Require Import Cirbo.Model.History.
Definition miter_case : Type := (circuit * circuit * res circuit)%type.
Definition check_miter_case (x : miter_case) : bool :=
  let '(l, r, ex) := x in res_eqb circuit_eqb (build_miter l r "circuit1" "circuit2") ex.
