(* The denotation of every gate type: ONE fixed Boolean function per type.
   Hand-written from the property text (C01):
   n-ary AND/OR/XOR are folds, NAND/NOR/NXOR negate the fold, GT/LT/GEQ/LEQ
   compare the first operand with the second, L*/R* read only their left/right
   operand, NOT/IFF are unary, constants ignore their operands.
   None = the operator does not accept that many operands (Python TypeError),
   or the type has no operator (INPUT). *)
Require Import Cirbo.Model.Base Cirbo.Model.Gate.

Definition fold_bool (f : bool -> bool -> bool) (bs : list bool) : option bool :=
  match bs with
  | b1 :: b2 :: rest => Some (fold_left f (b2 :: rest) b1)
  | _ => None
  end.

Definition bin (f : bool -> bool -> bool) (bs : list bool) : option bool :=
  match bs with [a; b] => Some (f a b) | _ => None end.

Definition un (f : bool -> bool) (bs : list bool) : option bool :=
  match bs with [a] => Some (f a) | _ => None end.

Definition den (g : gtype) (bs : list bool) : option bool :=
  match g with
  | INPUT => None
  | ALWAYS_TRUE => Some true
  | ALWAYS_FALSE => Some false
  | AND => fold_bool andb bs
  | OR => fold_bool orb bs
  | XOR => fold_bool xorb bs
  | NAND => option_map negb (fold_bool andb bs)
  | NOR => option_map negb (fold_bool orb bs)
  | NXOR => option_map negb (fold_bool xorb bs)
  | NOT => un negb bs
  | IFF => un (fun a => a) bs
  | GT => bin (fun a b => a && negb b) bs          (* a > b *)
  | LT => bin (fun a b => negb a && b) bs          (* a < b *)
  | GEQ => bin (fun a b => a || negb b) bs         (* a >= b *)
  | LEQ => bin (fun a b => negb a || b) bs         (* a <= b *)
  | LIFF => bin (fun a _ => a) bs
  | RIFF => bin (fun _ b => b) bs
  | LNOT => bin (fun a _ => negb a) bs
  | RNOT => bin (fun _ b => negb b) bs
  end.

(* three-valued (Kleene-style) denotation used as the reference for partial
   assignments: the value under vs is v<>U only if every completion gives v. *)
Definition den_accepts (g : gtype) (n : nat) : bool :=
  match g with
  | INPUT => false
  | ALWAYS_TRUE | ALWAYS_FALSE => true
  | AND | OR | XOR | NAND | NOR | NXOR => (2 <=? n)%nat
  | NOT | IFF => (n =? 1)%nat
  | _ => (n =? 2)%nat
  end.

Lemma den_accepts_spec g bs : den_accepts g (length bs) = true <-> den g bs <> None.
Proof.
  destruct g; simpl; unfold fold_bool, bin, un;
    destruct bs as [|a [|b [|c r]]]; simpl; split; intros; try discriminate; try congruence; try reflexivity.
Qed.
