(* cirbo/synthesis/generation/arithmetics/summation.py: add_sum_two_numbers, as far as the
   square-root generator needs it.  add_sum_two_numbers calls add_sum_n_bits (XAIG) on two or
   three labels only; on such short lists the scheduling loop of _add_sum_n_bits performs
     2 labels [p; q]    : xy = XOR(q, p); carry = GT(q, xy)                  -> [xy; carry]
     3 labels [p; q; r] : xy = XOR(r, q); add_stockmeyer_block([p; r; xy])   -> [w0; w1]
   which is what sum_bits2 / sum_bits3 below say (the general scheduler belongs to C07; the
   netlist correspondence of add_sum_two_numbers and add_sqrt ties these two shapes to the code). *)
Require Import Cirbo.Model.Base Cirbo.Model.Gate Cirbo.Model.Circuit Cirbo.Model.Builder.
Require Import Cirbo.Generated.ArithTables Cirbo.Generated.ArithCells Cirbo.Model.ArithSub.

Definition tt_xor : tt4 := TT false true true false.
Definition tt_and : tt4 := TT false false false true.
Definition tt_or : tt4 := TT false true true true.
Definition tt_gt : tt4 := TT false false true false.
Definition tt_lt : tt4 := TT false true false false.
Definition tt_nor : tt4 := TT true false false false.
Definition tt_nxor : tt4 := TT true false false true.

Definition sum_bits2 (p q : label) : prog (label * label) :=
  bdo xy <- gate_tt tt_xor q p;
  bdo cy <- gate_tt tt_gt q xy;
  Ret (xy, cy).

Definition sum_bits3 (p q r : label) : prog (label * label) :=
  bdo xy <- gate_tt tt_xor r q;
  bdo st <- add_stockmeyer_block [p; r; xy];
  unpack2 st.

(* for i in range(1, n): d[i] = add_sum_n_bits([d[i-1][1], a[i]] + ([b[i]] if i < m else []))
   returns [d[i][0] for i >= current] ++ [final carry] *)
Fixpoint sum_loop (a b : list label) (cy : label) : prog (list label) :=
  match a with
  | [] => Ret [cy]
  | ai :: a' =>
    bdo sc <- (match b with
               | bi :: _ => sum_bits3 cy ai bi
               | [] => sum_bits2 cy ai
               end);
    bdo rs <- sum_loop a' (tl b) (snd sc);
    Ret (fst sc :: rs)
  end.

Definition add_sum_two_numbers (input_labels_a input_labels_b : list label) (big_endian : bool)
  : prog (list label) :=
  let a := rev_if big_endian input_labels_a in
  let b := rev_if big_endian input_labels_b in
  let '(a, b) := if (length a <? length b)%nat then (b, a) else (a, b) in
  bdo a0 <- nthP a 0;
  bdo b0 <- nthP b 0;
  bdo sc <- sum_bits2 a0 b0;
  bdo rs <- sum_loop (tl a) (tl b) (snd sc);
  Ret (rev_if big_endian (fst sc :: rs)).
