(* cirbo/synthesis/generation/arithmetics/div_mod.py: restoring division with zero-divisor
   masking.  The index arithmetic of the Python loops is kept (firstn / skipn on `now`). *)
Require Import Cirbo.Model.Base Cirbo.Model.Gate Cirbo.Model.Circuit Cirbo.Model.Builder.
Require Import Cirbo.Generated.ArithTables Cirbo.Model.ArithSub Cirbo.Model.ArithSum2.

(* pref.append(OR(pref[-1], b[i])) for the given sequence of b[i]; returns the appended labels *)
Fixpoint or_chain (acc : label) (ls : list label) : prog (list label) :=
  match ls with
  | [] => Ret []
  | x :: r => bdo g <- gate_tt tt_or acc x; bdo rest <- or_chain g r; Ret (g :: rest)
  end.

(* for j in range(m): now[j+n-m] = OR(AND(q, sub_res[j]), GT(now[j+n-m], q)) *)
Fixpoint mux_loop (q : label) (sub_res hi : list label) : prog (list label) :=
  match hi with
  | [] => Ret []
  | h :: hi' =>
    bdo s <- nthP sub_res 0;
    bdo t1 <- gate_tt tt_and q s;
    bdo t2 <- gate_tt tt_gt h q;
    bdo g <- gate_tt tt_or t1 t2;
    bdo rest <- mux_loop q (tl sub_res) hi';
    Ret (g :: rest)
  end.

(* one quotient digit: shift i, m = n - i; prov = None for the last stage (i = 0), where the
   code uses NOR(per, per) *)
Definition div_stage (b : list label) (n : nat) (prov : option label) (i : nat) (now : list label)
  : prog (label * list label) :=
  let m := (n - i)%nat in
  bdo sp <- add_subtract_with_compare (skipn i now) (firstn m b) false;
  let per := snd sp in
  bdo q <- gate_tt tt_nor (match prov with Some p => p | None => per end) per;
  bdo hi <- mux_loop q (fst sp) (skipn i now);
  Ret (q, firstn i now ++ hi).

(* for i in range(i, 0, -1); returns (result[1..i], now) *)
Fixpoint div_loop (b pref : list label) (n i : nat) (now : list label) : prog (list label * list label) :=
  match i with
  | O => Ret ([], now)
  | S i' =>
    bdo prov <- nthP pref i';
    bdo r <- div_stage b n (Some prov) i now;
    bdo rest <- div_loop b pref n i' (snd r);
    Ret (fst rest ++ [fst r], snd rest)
  end.

Definition add_div_mod (input_labels_a input_labels_b : list label) (big_endian : bool)
  : prog (list label * list label) :=
  let a := rev_if big_endian input_labels_a in
  let b := rev_if big_endian input_labels_b in
  if negb (length a =? length b)%nat then Fail GenerationError else
  let n := length a in
  bdo top <- lastP b;                                   (* b[n - 1] *)
  bdo pr <- or_chain top (removelast (tl (rev b)));     (* b[n-2], ..., b[1] *)
  let pref := top :: pr in
  bdo hi <- div_loop b pref n (n - 1) a;
  bdo r0 <- div_stage b n None 0 (snd hi);
  let result := fst r0 :: fst hi in
  let now := snd r0 in
  bdo plast <- lastP pref;
  bdo b0 <- nthP b 0;
  bdo nz <- gate_tt tt_or plast b0;
  bdo result' <- mapP (fun r => gate_tt tt_and r nz) result;
  bdo now' <- mapP (fun x => gate_tt tt_and x nz) now;
  Ret (rev_if big_endian result', rev_if big_endian now').
