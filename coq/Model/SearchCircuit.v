(* The circuit object that _get_circuit_by_model builds from a decoded model:
   gate TYPES (through _tt_to_gate_type, passed as the parameter t2g so that this file does
   not depend on Generated/), labels '0'..'n-1' for inputs and 's<g>' for gates, outputs
   marked in order.  Also the class of the property text over typed circuits (ValidT), where
   "agrees with the model" is evaluation by the denotation `den` of each gate type. *)
Require Import Cirbo.Model.Base Cirbo.Model.Gate Cirbo.Model.Den Cirbo.Model.Circuit Cirbo.Model.Search.
From Coq Require Import DecimalString.
Local Open Scope nat_scope.

Record tgate : Type := mkTG { ta : nat; tb : nat; tty : gtype }.
Record tckt : Type := mkTCkt { tc_gates : list tgate; tc_outs : list nat }.

Definition tgate_eqb (x y : tgate) : bool := (ta x =? ta y) && (tb x =? tb y) && gtype_beq (tty x) (tty y).
Definition tckt_eqb (x y : tckt) : bool :=
  all_eqb tgate_eqb (tc_gates x) (tc_gates y) && all_eqb Nat.eqb (tc_outs x) (tc_outs y).

Section Typed.
  Variable t2g : tt4 -> gtype.            (* _tt_to_gate_type *)

  Definition to_tgate (g : sgate) : tgate := mkTG (ga g) (gb g) (t2g (gtt g)).
  Definition to_typed (c : sckt) : tckt := mkTCkt (map to_tgate (ck_gates c)) (ck_outs c).

  Definition decode_typed (sp : spec) (s : asg) : res tckt :=
    do c <- decode sp s; Ok (to_typed c).

  Definition find_circuit_typed (solve : list clause -> option asg) (sp : spec) : res tckt :=
    do c <- find_circuit solve sp; Ok (to_typed c).
End Typed.

(* evaluation by the denotation of the gate types *)
Definition den2 (g : gtype) (a b : bool) : bool :=
  match den g [a; b] with Some v => v | None => false end.
Definition teval_step (vals : list bool) (g : tgate) : list bool :=
  vals ++ [den2 (tty g) (nth (ta g) vals false) (nth (tb g) vals false)].
Definition teval_from (vals : list bool) (gs : list tgate) : list bool := fold_left teval_step gs vals.
Definition tvalue (n : nat) (gs : list tgate) (t j : nat) : bool := nth j (teval_from (input_vals n t) gs) false.

Section ValidTyped.
  Variable t2g : tt4 -> gtype.

  Definition tgate_ok (sp : spec) (i : nat) (g : tgate) : Prop :=
    ta g < tb g /\ tb g < sp_n sp + i
    /\ (exists op, In op (sp_basis sp) /\ tty g = t2g op)       (* the gate type of an operation of the basis *)
    /\ (sp_norm sp = true -> den (tty g) [false; false] = Some false).

  Definition tpreds_ok (fp sd : option nat) (g : tgate) : Prop :=
    match fp, sd with
    | Some f, Some s => ta g = f /\ tb g = s
    | Some p, None | None, Some p => ta g = p \/ tb g = p
    | None, None => True
    end.

  Definition tcons_holds (sp : spec) (c : tckt) (k : constraint) : Prop :=
    match k with
    | FixGate g fp sd gt =>
        exists x, nth_error (tc_gates c) (g - sp_n sp) = Some x /\ tpreds_ok fp sd x /\
                  match gt with Some t => tty x = t | None => True end
    | ForbidWire from to =>
        exists x, nth_error (tc_gates c) (to - sp_n sp) = Some x /\ ta x <> from /\ tb x <> from
    end.

  Record ValidT (sp : spec) (c : tckt) : Prop := mkValidT {
    vt_len : length (tc_gates c) = sp_r sp;
    vt_gates : forall i g, nth_error (tc_gates c) i = Some g -> tgate_ok sp i g;
    vt_outs_len : length (tc_outs c) = sp_m sp;
    vt_outs : forall o, In o (tc_outs c) -> sp_n sp <= o < sp_n sp + sp_r sp;
    vt_agree : forall h t v o, t < 2 ^ sp_n sp -> out_at sp h t = Some v ->
               nth_error (tc_outs c) h = Some o -> tvalue (sp_n sp) (tc_gates c) t o = v;
    vt_cons : forall k, In k (sp_pre sp ++ sp_post sp) -> tcons_holds sp c k
  }.
End ValidTyped.

(* ---- the cirbo Circuit object ------------------------------------- *)
Definition nat_str (n : nat) : string := NilEmpty.string_of_uint (Nat.to_uint n).
Definition gate_label (n j : nat) : label := if j <? n then nat_str j else ("s" ++ nat_str j)%string.

Definition build_circuit (n : nat) (c : tckt) : res circuit :=
  do c0 <- foldM (fun acc i => add_gate acc (nat_str i) INPUT []) (seq 0 n) empty_circuit;
  do c1 <- foldM (fun acc ig => add_gate acc ("s" ++ nat_str (n + fst ig))%string (tty (snd ig))
                                  [gate_label n (ta (snd ig)); gate_label n (tb (snd ig))])
                 (combine (seq 0 (length (tc_gates c))) (tc_gates c)) c0;
  foldM (fun acc o => mark_as_output acc ("s" ++ nat_str o)%string) (tc_outs c) c1.
