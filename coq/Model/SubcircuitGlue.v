(* C04 / T21: the composition of the hand models of _get_subcircuits into the list of _Subcircuit objects.  The object
   type gen_Subcircuit (the record of the attributes that _Subcircuit.__init__ assigns) is generated from the source
   (Generated/SubcircuitAlgGen.v); everything else here is hand written. *)
Require Import Cirbo.Model.Base Cirbo.Model.Gate Cirbo.Model.Circuit Cirbo.Model.Traverse Cirbo.Model.Eval
        Cirbo.Model.PatternSim.
Require Import Cirbo.Generated.GateTypes Cirbo.Generated.PatternOps Cirbo.Model.SubcircuitPrims Cirbo.Model.SubcircuitAlg.
Require Import Cirbo.Generated.SubcircuitAlgGen.

(* the _Subcircuit object of one cut, with the hand-written simulation *)
Definition subcircuit_of_cut (set_iter : list label -> list label) (c : circuit)
           (cn : list (list label * list label)) (node_pos : dict N) (cut : list label) : res gen_Subcircuit :=
  let leaves := set_iter (py_set_of_list cut) in
  let ns := set_iter (cm_get cn cut []) in
  do ks <- mapM (py_dict_getitem node_pos) ns;
  let nodes := py_sort_keyed ks ns in
  do d <- simulate_cone c leaves nodes;
  do sz <- cone_size c leaves nodes;
  do outs <- cone_outputs c leaves nodes;
  Ok (mk_gen_Subcircuit (rev leaves) nodes outs (N.of_nat sz) [] d).

Definition get_subcircuits_model (set_iter : list label -> list label) (fuel : nat) (c : circuit)
           (cuts : list (list label)) (cn : list (list label * list label)) (max_size : N)
  : res (list gen_Subcircuit) :=
  let cuts := py_sort_keyed (map py_len cuts) cuts in
  let good := filter_cuts cn cuts in
  do cn' <- foldM (fill_cut set_iter fuel c) good cn;
  do order <- top_sort true c;
  let node_pos := py_dict_of_pairs (map (fun il : N * label => (snd il, fst il)) (py_enumerate order)) in
  mapM (subcircuit_of_cut set_iter c cn' node_pos)
       (filter (fun cut => (1 <? py_len cut)%N && (py_len cut <=? max_size)%N) good).


(* _eval_dont_cares: what is stored in inputs_tt for the reachable leaf vectors vs (sorted, without repetition) *)
Definition dont_care_strings (vs : list (list bool)) : list string :=
  py_sorted_strs (py_set_of_list (map str_of_bits vs)).
