(* Fixed prelude of translator/t14_arith_gen.py (hand written, NOT derived from the source): the Python
   built-ins the arithmetic generators use, over the builder monad of Model/Builder.v.

   Python ints are Z throughout (len(l) is Z.of_nat (length l)); indexing, item assignment and slicing
   follow Python for negative indices too; range / list repetition are empty for a non-positive count.
   A `while` loop runs on fuel chosen by the translator from the loop condition (Err OutOfFuel when it
   does not suffice: the equality proofs against the hand model show that it always does). *)
Require Import Cirbo.Model.Base Cirbo.Model.Gate Cirbo.Model.Circuit Cirbo.Model.Builder.
From Coq Require Import ZArith Ascii.
Open Scope Z_scope.

(* len(l) *)
Definition py_len {A} (l : list A) : Z := Z.of_nat (length l).

(* the position a Python index denotes: i, or len(l) + i when i < 0 *)
Definition py_pos {A} (l : list A) (i : Z) : Z := if i <? 0 then i + py_len l else i.

(* l[i]  (IndexError) *)
Definition py_nth {A} (l : list A) (i : Z) : prog A :=
  let j := py_pos l i in
  if j <? 0 then Fail PyIndexError else nthP l (Z.to_nat j).

(* l[i] = x  (IndexError) *)
Definition py_set {A} (l : list A) (i : Z) (x : A) : prog (list A) :=
  let j := py_pos l i in
  if (j <? 0) || (py_len l <=? j) then Fail PyIndexError else Ret (upd l (Z.to_nat j) x).

(* a slice bound: negative counts from the end, then clamped to [0, len(l)] *)
Definition py_clamp {A} (l : list A) (i : Z) : nat :=
  Z.to_nat (Z.max 0 (Z.min (py_len l) (py_pos l i))).

(* l[lo:hi] with either bound optional (step 1) *)
Definition py_slice {A} (l : list A) (lo hi : option Z) : list A :=
  let a := match lo with None => 0%nat | Some i => py_clamp l i end in
  let b := match hi with None => length l | Some i => py_clamp l i end in
  firstn (b - a) (skipn a l).

(* range(a, b) and range(a, b, -1) *)
Definition py_range (a b : Z) : list Z := map (fun k => a + Z.of_nat k) (seq 0 (Z.to_nat (b - a))).
Definition py_range_down (a b : Z) : list Z := map (fun k => a - Z.of_nat k) (seq 0 (Z.to_nat (a - b))).

(* l * n *)
Definition py_mul {A} (l : list A) (n : Z) : list A := concat (repeat l (Z.to_nat n)).

(* enumerate(l) *)
Definition py_enumerate {A} (l : list A) : list (Z * A) := combine (py_range 0 (py_len l)) l.

(* x, y = l  (ValueError unless len(l) == 2) *)
Definition py_unpack2 {A} (l : list A) : prog (A * A) :=
  match l with [x; y] => Ret (x, y) | _ => Fail PyValueError end.

(* while cond(s): s = body(s) *)
Fixpoint py_while {S} (fuel : nat) (cond : S -> bool) (body : S -> prog S) (s : S) : prog S :=
  if cond s then
    match fuel with
    | O => Fail OutOfFuel
    | S fuel' => bdo s' <- body s; py_while fuel' cond body s'
    end
  else Ret s.

(* ---- str: a Python string is the list of its characters ------------------------------------ *)
(* binary digits of a positive number, most significant first *)
Fixpoint py_pos_digits (p : positive) : list ascii :=
  match p with
  | xH => ["1"%char]
  | xO q => py_pos_digits q ++ ["0"%char]
  | xI q => py_pos_digits q ++ ["1"%char]
  end.

(* bin(z) *)
Definition py_bin (z : Z) : list ascii :=
  match z with
  | Z0 => ["0"; "b"; "0"]%char
  | Zpos p => "0"%char :: "b"%char :: py_pos_digits p
  | Zneg p => "-"%char :: "0"%char :: "b"%char :: py_pos_digits p
  end.

(* s.zfill(w): zeros on the left up to width w, after a leading sign *)
Definition py_zfill (s : list ascii) (w : Z) : list ascii :=
  let pad := repeat "0"%char (Z.to_nat (w - py_len s)) in
  match s with
  | c :: r => if Ascii.eqb c "+" || Ascii.eqb c "-" then c :: pad ++ r else pad ++ s
  | [] => pad
  end.

(* ---- the generate_* wrappers ----------------------------------------------------------------- *)
From Coq Require Import DecimalString.

(* str(i) for an int *)
Definition py_str (z : Z) : string := NilEmpty.string_of_int (Z.to_int z).

(* Circuit.bare_circuit(n): a new circuit whose inputs are labelled str(0) ... str(n - 1)
   (the text of Circuit.bare_circuit / bare_circuit_with_labels is compared literally by the translator) *)
Definition py_bare_labels (n : Z) : list label := map py_str (py_range 0 n).
Definition py_bare_circuit (n : Z) : res circuit := circuit_with_inputs (py_bare_labels n).
