(* C04: an executable validator for one replacement step of minimize_subcircuits.
   A cone is the part of a circuit between a list of leaves (the cut) and some of its
   gates; it is evaluated directly (recursively, on fuel) over an assignment of Booleans to
   the leaves, stopping at the leaves.  check_step compares the cones of the listed outputs
   in the circuit before and after the step on every care-set vector (or on all 2^k leaf
   vectors); check_subst adds the frame conditions under which agreement of the cones
   implies that every surviving gate keeps its value (Proofs/ValidatorFacts.v). *)
Require Import Cirbo.Model.Base Cirbo.Model.Gate Cirbo.Model.Den Cirbo.Model.Circuit
        Cirbo.Model.Traverse Cirbo.Model.Eval Cirbo.Model.Connect Cirbo.Model.History
        Cirbo.Model.PatternSim.

Fixpoint mapO {A B} (f : A -> option B) (l : list A) : option (list B) :=
  match l with
  | [] => Some []
  | x :: xs => match f x with
               | Some y => match mapO f xs with Some ys => Some (y :: ys) | None => None end
               | None => None
               end
  end.

(* rho: Booleans for the leaves; the cone is cut at every label bound in rho *)
Fixpoint cone_eval (fuel : nat) (c : circuit) (rho : dict bool) (l : label) : option bool :=
  match fuel with
  | O => None
  | S fuel' =>
    match dget rho l with
    | Some b => Some b
    | None =>
      match dget (gates c) l with
      | None => None
      | Some g =>
        match mapO (cone_eval fuel' c rho) (gops g) with
        | Some bs => den (gtyp g) bs
        | None => None
        end
      end
    end
  end.

Definition cone_fuel (c : circuit) : nat := S (size c).

(* the vectors on which the cones are compared: the care set, or all 2^k vectors *)
Definition step_vectors (k : nat) (care : option (list (list bool))) : list (list bool) :=
  match care with Some K => K | None => all_bool_vectors k end.

(* specification side: v is one of the vectors a check compares - a member of the care set,
   or (care = None) any vector with one Boolean per leaf *)
Definition compared (k : nat) (care : option (list (list bool))) (v : list bool) : Prop :=
  match care with Some K => In v K | None => length v = k end.

(* leaves / outs as pairs (label in old, label in new): replace_subcircuit renames the keys
   of inputs_mapping / outputs_mapping to their values *)
Definition check_vector (old new : circuit) (leaves outs : list (label * label)) (v : list bool) : bool :=
  Nat.eqb (length v) (length leaves) &&
  forallb (fun oo : label * label =>
             match cone_eval (cone_fuel old) old (combine (map fst leaves) v) (fst oo),
                   cone_eval (cone_fuel new) new (combine (map snd leaves) v) (snd oo) with
             | Some b, Some b' => Bool.eqb b b'
             | _, _ => false
             end) outs.

Definition check_step_map (old new : circuit) (leaves outs : list (label * label))
           (care : option (list (list bool))) : bool :=
  forallb (check_vector old new leaves outs) (step_vectors (length leaves) care).

Definition dup (l : label) : label * label := (l, l).

(* the labels are the same before and after (what minimize_subcircuits arranges by
   _rename_subcircuit_gates) *)
Definition check_step (old new : circuit) (leaves outs : list label)
           (care : option (list (list bool))) : bool :=
  check_step_map old new (map dup leaves) (map dup outs) care.

(* ---- frame conditions for the substitution theorem ---- *)
Definition gate_opt_eqb (a b : option gate) : bool :=
  match a, b with
  | Some x, Some y => gate_eqb x y
  | None, None => true
  | _, _ => false
  end.

(* gates of old that are absent from new or differ in new *)
Definition changed (old new : circuit) : list label :=
  filter (fun l => negb (gate_opt_eqb (dget (gates old) l) (dget (gates new) l))) (dkeys (gates old)).

(* Gates of old whose definition is the same in new but that read (directly or through other
   such gates) a changed gate that is not a cone output: their value may change although their
   definition did not.  This happens when a synthesised gate gets the label of a removed gate
   and happens to have its type and operands.  The search is unverified (fuel = number of
   gates): frame_users below re-checks that the result is closed. *)
Fixpoint tainted (fuel : nat) (old : circuit) (outs acc : list label) : list label :=
  match fuel with
  | O => acc
  | S fuel' =>
    match filter (fun kg : label * gate =>
                    negb (memb (fst kg) acc) && negb (memb (fst kg) outs)
                    && existsb (fun o => memb o acc && negb (memb o outs)) (gops (snd kg)))
                 (gates old) with
    | [] => acc
    | more => tainted fuel' old outs (map fst more ++ acc)
    end
  end.

(* the replaced internal gates: changed gates that are not cone outputs (removed, or their
   label was reused), and the gates that depend on them without passing through a cone output *)
Definition replaced_internal (old new : circuit) (outs : list label) : list label :=
  filter (fun l => negb (memb l outs)) (tainted (size old) old outs (changed old new)).

(* everything reachable from todo without expanding the labels in seen (unverified search,
   used only to restrict which gates a step may touch) *)
Fixpoint closure (fuel : nat) (c : circuit) (todo seen : list label) : list label :=
  match fuel with
  | O => seen
  | S fuel' =>
    match todo with
    | [] => seen
    | l :: rest =>
      if memb l seen then closure fuel' c rest seen else
      match dget (gates c) l with
      | Some g => closure fuel' c (gops g ++ rest) (l :: seen)
      | None => closure fuel' c rest (l :: seen)
      end
    end
  end.

Definition closure_fuel (c : circuit) (todo : list label) : nat :=
  S (length todo + size c + sum_arity c).

(* order lists gates of c operands-first: every listed label is new, has a gate, and all its
   operands were listed before (an explicit certificate that this part of c is acyclic) *)
Fixpoint ordered_okb (c : circuit) (seen order : list label) : bool :=
  match order with
  | [] => true
  | l :: rest =>
    negb (memb l seen)
    && match dget (gates c) l with
       | Some g => forallb (fun o => memb o seen) (gops g)
       | None => false
       end
    && ordered_okb c (l :: seen) rest
  end.

(* the circuit after the step is acyclic: top_sort (unverified here) proposes an order, the
   order is checked and must list every gate *)
Definition frame_order (new : circuit) : bool :=
  match top_sort true new with
  | Ok order => ordered_okb new [] order && forallb (fun k => memb k order) (dkeys (gates new))
  | Err _ => false
  end.

(* the leaves survive and are not cone outputs *)
Definition frame_leaves (old new : circuit) (leaves outs : list label) : bool :=
  forallb (fun l => negb (memb l (replaced_internal old new outs)) && negb (memb l outs)) leaves.

(* no gate outside the replaced internal gates (other than the cone outputs, which the cone
   check covers) reads a replaced internal gate *)
Definition frame_users (old new : circuit) (outs : list label) : bool :=
  forallb (fun kg : label * gate =>
             memb (fst kg) (replaced_internal old new outs) || memb (fst kg) outs
             || forallb (fun o => negb (memb o (replaced_internal old new outs))) (gops (snd kg)))
          (gates old).

(* same interface; no circuit output is a replaced internal gate; only gates of the cone
   between the leaves and the listed outputs were touched (the last condition is not needed
   for the theorem, it makes the set of gates the theorem is silent about meaningful) *)
Definition frame_scope (old new : circuit) (leaves outs : list label) : bool :=
  labels_eqb (inputs old) (inputs new)
  && labels_eqb (outputs old) (outputs new)
  && forallb (fun o => negb (memb o (replaced_internal old new outs))) (outputs old)
  && forallb (fun l => memb l (closure (closure_fuel old outs) old outs leaves))
             (replaced_internal old new outs).

Definition check_frame (old new : circuit) (leaves outs : list label) : bool :=
  frame_order new && frame_leaves old new leaves outs && frame_users old new outs
  && frame_scope old new leaves outs.

Definition check_subst (old new : circuit) (leaves outs : list label)
           (care : option (list (list bool))) : bool :=
  check_frame old new leaves outs && check_step old new leaves outs care.

(* ---- the "all outputs trivial" branch: a cone output o whose pattern equals that of the
   leaf l is merged into l (users of o read l instead, o is removed).  No call of
   replace_subcircuit is involved; the step is validated on the states before / after:
   the gates of new are those of old (except o) with o replaced by l among the operands,
   new is acyclic, and in old the cone value of o is the value of the leaf l on every
   compared vector. ---- *)
Definition merge_gate (o l : label) (g : gate) : gate :=
  mkGate (gtyp g) (subst_label o l (gops g)).

Definition check_merge (old new : circuit) (leaves : list label) (o l : label)
           (care : option (list (list bool))) : bool :=
  negb (leqb o l) && memb l leaves
  && labels_eqb (inputs old) (inputs new)
  && labels_eqb (outputs new) (subst_label o l (outputs old))
  && forallb (fun kg : label * gate =>
                leqb (fst kg) o
                || gate_opt_eqb (dget (gates new) (fst kg)) (Some (merge_gate o l (snd kg))))
             (gates old)
  && frame_order new
  && check_step_map old old (map dup leaves) [(o, l)] care.

(* ---- what the harness evaluates for a recorded call of Circuit.replace_subcircuit ----
   before/after: dumped states; sub, imap, omap, fresh: the arguments and the uuid used.
   1. the model's replace_subcircuit reproduces the dumped result state,
   2. the cones agree on all leaf vectors (care = None) or on the care set. *)
Definition replay_step (before sub : circuit) (imap omap : dict label) (fresh : string)
           (after : circuit) : bool :=
  match replace_subcircuit before sub imap omap fresh with
  | Ok c => circuit_eqb c after
  | Err _ => false
  end.
