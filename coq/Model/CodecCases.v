(* Case formats and checkers for the codec correspondence (C16, C17): every checker
   evaluates the model on the recorded input and compares with the recorded result of the
   implementation.  Python bytes are printed by the harness as lists of numbers. *)
Require Import Cirbo.Model.Base Cirbo.Model.Gate Cirbo.Model.Circuit Cirbo.Model.Eval Cirbo.Model.History.
Require Import Cirbo.Model.BitIO Cirbo.Model.DictIO Cirbo.Model.Codec Cirbo.Model.Db.

Definition bl (l : list N) : bytes := map ascii_of_N l.
Definition bytes_eqb : bytes -> bytes -> bool := all_eqb Ascii.eqb.
Definition bits_eqb : bits -> bits -> bool := all_eqb Bool.eqb.
Definition key_of (l : list N) : label := string_of_list_ascii (bl l).

Definition pair_eqb {A B} (ea : A -> A -> bool) (eb : B -> B -> bool) (x y : A * B) : bool :=
  ea (fst x) (fst y) && eb (snd x) (snd y).
Definition option_eqb {A} (ea : A -> A -> bool) (x y : option A) : bool :=
  match x, y with Some a, Some b => ea a b | None, None => true | _, _ => false end.

(* ---- single bits: (bits written, bytes(writer), bits read back) ---- *)
Definition bits_case : Type := (bits * list N * bits)%type.

Definition check_bits_case (x : bits_case) : bool :=
  let '(bs, impl_bytes, back) := x in
  bytes_eqb (pack bs) (bl impl_bytes)
  && match read_bits (length bs) (unpack (bl impl_bytes)) with
     | Ok (got, rest) =>
       bits_eqb got back
       && match read_bits (length rest) rest with
          | Ok (_, rest') =>                       (* the padding, then one read past the end *)
            match br_read rest' with Err BitIOError => true | _ => false end
          | Err _ => false
          end
     | Err _ => false
     end.

(* ---- numbers: writes (x, k, raised?), bytes(writer), reads (k, result) ---- *)
Definition numbers_case : Type := (list (N * nat * bool) * list N * list (nat * res N))%type.

Definition check_numbers_case (x : numbers_case) : bool :=
  let '(writes, impl_bytes, reads) := x in
  let '(acc, okw) :=
    fold_left (fun (st : bits * bool) (w : N * nat * bool) =>
                 let '(n, k, raised) := w in
                 match write_number n k with
                 | Ok b => (fst st ++ b, snd st && negb raised)
                 | Err BitIOError => (fst st, snd st && raised)
                 | Err _ => (fst st, false)
                 end) writes ([], true) in
  okw && bytes_eqb (pack acc) (bl impl_bytes)
  && snd (fold_left (fun (st : bits * bool) (rd : nat * res N) =>
                       match read_number (fst rd) (fst st) with
                       | Ok (v, r') => (r', snd st && res_eqb N.eqb (Ok v) (snd rd))
                       | Err e => ([], snd st && res_eqb N.eqb (Err e) (snd rd))
                       end) reads (unpack (bl impl_bytes), true)).

(* ---- dictionaries: (entries, result of write, [(stream, result of read)]) ---- *)
Definition entries := list (list N * list N).
Definition to_dict (es : entries) : dict bytes := map (fun kv => (key_of (fst kv), bl (snd kv))) es.
Definition dict_case : Type := (entries * res (list N) * list (list N * res entries))%type.

Definition bdict_eqb : dict bytes -> dict bytes -> bool := dict_eqb bytes_eqb.

Definition check_dict_case (x : dict_case) : bool :=
  let '(es, wr, reads) := x in
  res_eqb bytes_eqb (write_binary_dict (to_dict es)) (match wr with Ok b => Ok (bl b) | Err e => Err e end)
  && forallb (fun sr : list N * res entries =>
                res_eqb bdict_eqb (read_binary_dict (bl (fst sr)))
                        (match snd sr with Ok e => Ok (to_dict e) | Err e => Err e end)) reads.

(* ---- circuits: (circuit, result of encode, [(bytes, result of decode)]) ---- *)
Definition codec_case : Type := (circuit * res (list N) * list (list N * res circuit))%type.

Definition check_codec_case (x : codec_case) : bool :=
  let '(c, enc, decs) := x in
  res_eqb bytes_eqb (encode_circuit c) (match enc with Ok b => Ok (bl b) | Err e => Err e end)
  && forallb (fun br : list N * res circuit =>
                res_eqb circuit_eqb (decode_circuit (bl (fst br))) (snd br)) decs.

(* ---- CircuitsDatabase: adds, save, open of the saved bytes, get_by_label ---- *)
Scheme Equality for dberr.
Definition dbres_eqb {A} (eqb : A -> A -> bool) (a b : dbres A) : bool :=
  match a, b with
  | DbOk x, DbOk y => eqb x y
  | DbErr e, DbErr f => dberr_beq e f
  | _, _ => false
  end.

Definition db_case : Type :=
  (list (list N * circuit * dbres unit) * res (list N) * res entries * list (list N * res (option circuit)))%type.

Definition check_db_case (x : db_case) : bool :=
  let '(adds, saved, opened, gets) := x in
  let '(d, okadd) :=
    fold_left (fun (st : db * bool) (a : list N * circuit * dbres unit) =>
                 let '(l, c, expected) := a in
                 match add_circuit (fst st) c (key_of l) with
                 | DbOk d' => (d', snd st && dbres_eqb (fun _ _ => true) (DbOk tt) expected)
                 | DbErr e => (fst st, snd st && dbres_eqb (fun _ _ => true) (DbErr e) expected)
                 end) adds ([], true) in
  okadd
  && res_eqb bytes_eqb (save d) (match saved with Ok b => Ok (bl b) | Err e => Err e end)
  && match saved with
     | Ok b =>
       res_eqb bdict_eqb (open (bl b)) (match opened with Ok e => Ok (to_dict e) | Err e => Err e end)
       && match open (bl b) with
          | Ok d' => forallb (fun g : list N * res (option circuit) =>
                                res_eqb (option_eqb circuit_eqb) (get_by_label d' (key_of (fst g))) (snd g)) gets
          | Err _ => true
          end
     | Err _ => true
     end.

(* ---- lookups (C17): (database, table, result) and (database, model table, exclusion, result) ---- *)
Definition lookup_case : Type := (entries * table * dbres (option circuit))%type.
Definition check_lookup_case (x : lookup_case) : bool :=
  let '(es, t, expected) := x in
  dbres_eqb (option_eqb circuit_eqb) (get_by_raw_truth_table (to_dict es) t) expected.

Definition model_lookup_case : Type :=
  (entries * table_model * option (list gtype) * dbres (option circuit))%type.
Definition check_model_lookup_case (x : model_lookup_case) : bool :=
  let '(es, tm, excl, expected) := x in
  dbres_eqb (option_eqb circuit_eqb) (get_by_raw_truth_table_model (to_dict es) tm excl) expected.

(* normalisation alone: (table, result (negations, permutation, mapping, table)) *)
Definition norm_case : Type := (table * res (list bool * list nat * list nat * table))%type.
Definition check_norm_case (x : norm_case) : bool :=
  let '(t, expected) := x in
  res_eqb (fun a b : list bool * list nat * list nat * table =>
             let '(n1, p1, m1, t1) := a in let '(n2, p2, m2, t2) := b in
             all_eqb Bool.eqb n1 n2 && all_eqb Nat.eqb p1 p2 && all_eqb Nat.eqb m1 m2
             && all_eqb (all_eqb Bool.eqb) t1 t2)
          (do ni <- normalize t; Ok (negations ni, permutation ni, mapping ni, norm_table ni)) expected.

(* decoding alone: (bytes, result of decode_circuit) *)
Definition decode_case : Type := (list N * res circuit)%type.
Definition check_decode_case (x : decode_case) : bool :=
  res_eqb circuit_eqb (decode_circuit (bl (fst x))) (snd x).
