(* Fixed prelude of translator T20 (translator/t20_bench_alg.py -> Generated/BenchAlgGen.v).  NOT derived from
   the source: it is the meaning the translator gives to the Python primitives that the bench printer and parser
   use and that the hand model Model/Bench.v does not already define.  Part of the trusted base of the tie.

   Conventions.  A Python `str` is a Coq `string` (a sequence of 8-bit characters; the model is meant for ASCII
   text), a Python `int` is a `Z`, a `list[str]` / `tuple[str, ...]` is a `list string`, an exception is `Err kind`.

   The character-level helpers of Model/Bench.v are used by the generated code with these Python meanings:
     has_char ch s          ch in s                 for a ONE-character literal ch
     strip cs s             s.strip(chars)          cs = the characters of the literal `chars`
     upper s                s.upper()               exact on ASCII (a-z only are changed; 8-bit letters are not)
     startswith p s         s.startswith(p)
     split_char ch s        s.split(sep)            for a ONE-character literal sep, no maxsplit
     String.eqb a b         a == b                  on str
     labels_eqb a b         a == b                  on list[str]
     String.concat sep l    sep.join(l)
     (a ++ b)%string        f"{a}{b}"               formatting a str with an empty format spec is the identity
     lines s                iteration of io.StringIO(s) (default newline: no translation; lines keep their "\n")
   The translator refuses needles / separators that are not one-character literals. *)
Require Import Cirbo.Model.Base Cirbo.Model.Bench.
Require Import Coq.ZArith.ZArith.
Local Open Scope Z_scope.

(* s.find(ch) for a one-character literal ch: the lowest index of ch in s, or -1 *)
Definition py_find_char (ch : ascii) (s : string) : Z :=
  match find_char ch s with
  | Some i => Z.of_nat i
  | None => -1
  end.

(* how a slice bound i is adjusted for a sequence of length n (step 1): a negative bound counts from the end
   and is clipped at 0, a non-negative one is clipped at n *)
Definition py_bound (n : nat) (i : Z) : nat :=
  if i <? 0 then Z.to_nat (Z.max 0 (Z.of_nat n + i)) else Nat.min (Z.to_nat i) n.

(* s[lo:hi]; None = the bound is omitted *)
Definition py_slice (s : string) (lo hi : option Z) : string :=
  let n := String.length s in
  let a := match lo with Some i => py_bound n i | None => O end in
  let b := match hi with Some i => py_bound n i | None => n end in
  slice a b s.

(* s[i]: a one-character string; negative indices count from the end; IndexError outside -len .. len-1 *)
Definition py_getitem (s : string) (i : Z) : res string :=
  let n := Z.of_nat (String.length s) in
  let j := if i <? 0 then i + n else i in
  if (j <? 0) || (n <=? j) then Err PyIndexError
  else Ok (slice (Z.to_nat j) (S (Z.to_nat j)) s).

(* d[k] for a dict with str keys (insertion-ordered association list with unique keys): KeyError when absent *)
Fixpoint py_dict_getitem {V} (d : list (string * V)) (k : string) : res V :=
  match d with
  | [] => Err PyKeyError
  | (k', v) :: rest => if String.eqb k k' then Ok v else py_dict_getitem rest k
  end.

(* try: <body>  except <E1>: raise <E2>(...)
   (the kinds of Base.err are unrelated classes: `except KeyError` catches PyKeyError only; what the body did to the
   state before the exception is irrelevant because an exception leaves the function either way) *)
Definition py_reraise {A} (e1 e2 : err) (r : res A) : res A :=
  match r with
  | Ok a => Ok a
  | Err e => if err_beq e e1 then Err e2 else Err e
  end.

(* iteration of the text stream `pathlib.Path(p).open()` (mode "r", newline=None) over a file whose content is the
   8-bit text `content`: universal newlines, then lines that keep their "\n" *)
Definition py_text_file_lines (content : string) : list string := lines (universal_newlines content).
