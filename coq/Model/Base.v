(* Base definitions shared by the whole model: results with error kinds,
   Python-dict-like insertion ordered association lists, small list helpers. *)
From Coq Require Export String Ascii.
From Coq Require Export List Bool Arith NArith ZArith Lia.
Export ListNotations.
Open Scope string_scope.
Open Scope list_scope.

(* Error kinds: the cirbo exception classes that the modelled code raises, plus
   the Python built-in exceptions that can escape, plus OutOfFuel (model only). *)
Inductive err : Type :=
| CircuitValidationError | CircuitGateIsAbsentError | CircuitGateAlreadyExistsError
| CircuitIsCyclicalError | GateTypeNoOperatorError | GateStateError
| GateHasUsersError | GateNotInputError | GateDoesntExistError
| TraverseMethodError | CreateBlockError | DeleteBlockError
| OverlappingBlocksError | ReplaceSubcircuitError
| MiterDifferentShapesError | CircuitEncodingError | BitIOError | BinaryDictIOError
| BadDefinitionError | TruthTableBadShapeError | BenchParseError
| NoSolutionError | GenerationError
| PyTypeError | PyKeyError | PyIndexError | PyValueError | PyAssertionError
| PyStopIteration | OutOfFuel
(* never produced by the model: the harness prints any Python exception outside this list as this
   constructor, so such an exception can never agree with a model result *)
| UnmodelledPythonException.

Scheme Equality for err.

Inductive res (A : Type) : Type :=
| Ok : A -> res A
| Err : err -> res A.
Arguments Ok {A} _.
Arguments Err {A} _.

Definition bind {A B} (r : res A) (f : A -> res B) : res B :=
  match r with Ok a => f a | Err e => Err e end.
Notation "'do' x <- r ; k" := (bind r (fun x => k))
  (at level 200, x pattern, r at level 100, k at level 200).
Notation "'check' b 'else' e ; k" := (if b then k else Err e)
  (at level 200, b at level 100, e at level 100, k at level 200).

Definition is_ok {A} (r : res A) : bool := match r with Ok _ => true | Err _ => false end.

Lemma bind_ok {A B} (r : res A) (f : A -> res B) b :
  bind r f = Ok b -> exists a, r = Ok a /\ f a = Ok b.
Proof. destruct r; simpl; intros H; [eauto|discriminate]. Qed.

(* map over a list with a failing function, left to right *)
Fixpoint mapM {A B} (f : A -> res B) (l : list A) : res (list B) :=
  match l with
  | [] => Ok []
  | x :: xs => do y <- f x; do ys <- mapM f xs; Ok (y :: ys)
  end.

Fixpoint foldM {A S} (f : S -> A -> res S) (l : list A) (s : S) : res S :=
  match l with
  | [] => Ok s
  | x :: xs => do s' <- f s x; foldM f xs s'
  end.

(* ------------------------------------------------------------------ *)
(* labels *)
Definition label := string.
Definition leqb (a b : label) : bool := String.eqb a b.
Lemma leqb_eq a b : leqb a b = true <-> a = b.
Proof. apply String.eqb_eq. Qed.
Lemma leqb_neq a b : leqb a b = false <-> a <> b.
Proof. apply String.eqb_neq. Qed.
Lemma leqb_refl a : leqb a a = true.
Proof. apply String.eqb_refl. Qed.
Lemma leqb_spec a b : reflect (a = b) (leqb a b).
Proof. apply String.eqb_spec. Qed.

Fixpoint memb (x : label) (l : list label) : bool :=
  match l with [] => false | y :: ys => if leqb x y then true else memb x ys end.

Lemma memb_In x l : memb x l = true <-> In x l.
Proof.
  induction l as [|y ys IH]; simpl; [split; [discriminate|tauto]|].
  destruct (leqb_spec x y) as [->|Hne]; [tauto|].
  rewrite IH. split; [tauto|]. intros [H|H]; [congruence|exact H].
Qed.
Lemma memb_nIn x l : memb x l = false <-> ~ In x l.
Proof. rewrite <- memb_In. destruct (memb x l); split; congruence. Qed.

(* Python list.remove(x): removes the first occurrence (caller checks membership) *)
Fixpoint remove1 (x : label) (l : list label) : list label :=
  match l with [] => [] | y :: ys => if leqb x y then ys else y :: remove1 x ys end.

(* Python  [y for y in l if y != x] *)
Definition remove_all (x : label) (l : list label) : list label :=
  filter (fun y => negb (leqb y x)) l.

(* replace every occurrence *)
Definition subst_label (old new : label) (l : list label) : list label :=
  map (fun y => if leqb y old then new else y) l.

(* replace first occurrence: l[l.index(old)] = new *)
Fixpoint subst_first (old new : label) (l : list label) : list label :=
  match l with
  | [] => []
  | y :: ys => if leqb y old then new :: ys else y :: subst_first old new ys
  end.

Fixpoint nodupb (l : list label) : bool :=
  match l with [] => true | x :: xs => negb (memb x xs) && nodupb xs end.

Lemma nodupb_NoDup l : nodupb l = true <-> NoDup l.
Proof.
  induction l as [|x xs IH]; simpl.
  - split; [constructor|reflexivity].
  - rewrite andb_true_iff, negb_true_iff, memb_nIn, IH.
    split; [intros [H1 H2]; constructor; assumption|inversion 1; tauto].
Qed.

Fixpoint count (x : label) (l : list label) : nat :=
  match l with [] => 0 | y :: ys => (if leqb x y then 1 else 0) + count x ys end.

(* ------------------------------------------------------------------ *)
(* Python dict with insertion order: association list, keys unique.
   dset keeps the position of an existing key, appends a new key. *)
Section Dict.
  Context {V : Type}.
  Definition dict := list (label * V).

  Fixpoint dget (d : dict) (k : label) : option V :=
    match d with
    | [] => None
    | (k', v) :: d' => if leqb k k' then Some v else dget d' k
    end.

  Definition dmem (d : dict) (k : label) : bool :=
    match dget d k with Some _ => true | None => false end.

  Fixpoint dset (d : dict) (k : label) (v : V) : dict :=
    match d with
    | [] => [(k, v)]
    | (k', v') :: d' => if leqb k k' then (k', v) :: d' else (k', v') :: dset d' k v
    end.

  Fixpoint ddel (d : dict) (k : label) : dict :=
    match d with
    | [] => []
    | (k', v') :: d' => if leqb k k' then d' else (k', v') :: ddel d' k
    end.

  Definition dkeys (d : dict) : list label := map fst d.
  Definition dvals (d : dict) : list V := map snd d.

  (* d.setdefault(k, v) *)
  Definition dsetdefault (d : dict) (k : label) (v : V) : dict :=
    if dmem d k then d else d ++ [(k, v)].
End Dict.
Arguments dict V : clear implicits.

(* first n elements / Python-style helpers *)
Definition nth_res {A} (l : list A) (i : nat) : res A :=
  match nth_error l i with Some x => Ok x | None => Err PyIndexError end.

Fixpoint all_eqb {A} (eqb : A -> A -> bool) (l1 l2 : list A) : bool :=
  match l1, l2 with
  | [], [] => true
  | x :: xs, y :: ys => eqb x y && all_eqb eqb xs ys
  | _, _ => false
  end.

Lemma all_eqb_eq {A} (eqb : A -> A -> bool) :
  (forall a b, eqb a b = true <-> a = b) ->
  forall l1 l2, all_eqb eqb l1 l2 = true <-> l1 = l2.
Proof.
  intros H l1; induction l1 as [|x xs IH]; intros [|y ys]; simpl;
    try (split; [discriminate|discriminate]); try tauto.
  rewrite andb_true_iff, H, IH. split; [intros [-> ->]; reflexivity|inversion 1; tauto].
Qed.

Definition labels_eqb := all_eqb leqb.
Lemma labels_eqb_eq l1 l2 : labels_eqb l1 l2 = true <-> l1 = l2.
Proof. apply all_eqb_eq, leqb_eq. Qed.
