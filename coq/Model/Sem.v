(* The denotational semantics of a netlist under a (possibly partial) assignment:
   the least relation closed under "an INPUT gate has its assigned value (Undefined
   when absent)" and "a gate has the operator's value on its operands' values". *)
Require Import Cirbo.Model.Base Cirbo.Model.Gate Cirbo.Model.Circuit Cirbo.Model.Eval.
Require Import Cirbo.Generated.GateTypes.

Definition aval (a : assignment) (l : label) : st :=
  match dget a l with Some v => v | None => U end.

Inductive Eval (c : circuit) (a : assignment) : label -> st -> Prop :=
| EvalInput l g :
    dget (gates c) l = Some g -> gtyp g = INPUT -> Eval c a l (aval a l)
| EvalGate l g vs v :
    dget (gates c) l = Some g -> gtyp g <> INPUT ->
    Forall2 (Eval c a) (gops g) vs ->
    operator_of (gtyp g) vs = Ok v ->
    Eval c a l v.

Section EvalInd.
  Variables (c : circuit) (a : assignment) (P : label -> st -> Prop).
  Hypothesis Hin : forall l g, dget (gates c) l = Some g -> gtyp g = INPUT -> P l (aval a l).
  Hypothesis Hgate : forall l g vs v,
      dget (gates c) l = Some g -> gtyp g <> INPUT ->
      Forall2 (Eval c a) (gops g) vs -> Forall2 P (gops g) vs ->
      operator_of (gtyp g) vs = Ok v -> P l v.

  Fixpoint Eval_ind2 l v (H : Eval c a l v) {struct H} : P l v :=
    match H in Eval _ _ l v return P l v with
    | EvalInput _ _ l g Hg Ht => Hin l g Hg Ht
    | EvalGate _ _ l g vs v Hg Ht Hops Hop =>
      Hgate l g vs v Hg Ht Hops
        ((fix F ls vs (H2 : Forall2 (Eval c a) ls vs) {struct H2} : Forall2 P ls vs :=
            match H2 in Forall2 _ ls vs return Forall2 P ls vs with
            | Forall2_nil _ => Forall2_nil _
            | Forall2_cons x y Hxy Hr => Forall2_cons x y (Eval_ind2 x y Hxy) (F _ _ Hr)
            end) (gops g) vs Hops) Hop
    end.
End EvalInd.

(* a is total (Boolean) on the INPUT gates of c *)
Definition total_on (c : circuit) (a : assignment) : Prop :=
  forall l g, dget (gates c) l = Some g -> gtyp g = INPUT -> aval a l <> U.

(* information order on assignments *)
Definition assign_le (a a' : assignment) : Prop := forall l, st_le (aval a l) (aval a' l).
