(* Fixed prelude of translator/t22_wallace.py (hand written, NOT derived from the source), on top of
   Model/PyPrims.v / PyPrims08.v: the Python idioms of add_mul_wallace that T14 / T19 did not need.
   Python ints are Z. *)
Require Import Cirbo.Model.Base Cirbo.Model.Gate Cirbo.Model.Circuit Cirbo.Model.Builder Cirbo.Model.PyPrims.
From Coq Require Import ZArith.
Open Scope Z_scope.

(* range(a, b, k) for a positive literal k: a, a + k, ... below b *)
Definition py_range_step (a b k : Z) : list Z :=
  map (fun i => a + k * Z.of_nat i) (seq 0 (Z.to_nat ((b - a + k - 1) / k))).

(* the truth value of a list: `if l`, `not l`, `x if l else y` *)
Definition py_truth {A} (l : list A) : bool := match l with [] => false | _ :: _ => true end.

(* [x for x in l if p(x)] for a test that may raise (it indexes a list): the tests run in order *)
Fixpoint py_filter_m {A} (p : A -> prog bool) (l : list A) : prog (list A) :=
  match l with
  | [] => Ret []
  | x :: r => bdo b <- p x; bdo r' <- py_filter_m p r; Ret (if b then x :: r' else r')
  end.
