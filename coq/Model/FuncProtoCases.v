(* Case formats and checkers for the C12 correspondence (harness/funccorr.py). *)
Require Import Cirbo.Model.Base Cirbo.Model.Gate Cirbo.Model.Circuit Cirbo.Model.Eval
        Cirbo.Model.History Cirbo.Model.FuncProto.

Definition qres : Type := (query * res answer)%type.

Definition check_qs (run : query -> res answer) (qs : list qres) : bool :=
  forallb (fun p => res_eqb answer_eqb (run (fst p)) (snd p)) qs.

(* the callable the harness hands to PyFunction / PyFunctionModel:
   lambda args: [row[input_to_canonical_index(args)] for row in table] *)
Definition table_callable {A} (table : list (list A)) : bvec -> res (list A) :=
  fun x => mapM (fun row => nth_res row (index_of x)) table.

(* every query of one class: either the constructor failed (Err) or the list of answers *)
Definition check_class {R} (make : res R) (run : R -> query -> res answer) (expected : res (list qres)) : bool :=
  match make, expected with
  | Ok r, Ok qs => check_qs (run r) qs
  | Err e, Err e' => err_beq e e'
  | _, _ => false
  end.

Definition tris_eqb : list tri -> list tri -> bool := all_eqb tri_eqb.
Definition table_eqb : list bvec -> list bvec -> bool := all_eqb bvec_eqb.

(* ---- compact case syntax (the case files are dominated by parsing time) ---- *)
Fixpoint bv (s : string) : bvec :=
  match s with
  | EmptyString => []
  | String c r => (if Ascii.eqb c "1"%char then true else false) :: bv r
  end.
Definition tb (rows : list string) : list bvec := map bv rows.
Definition bt : res answer := Ok (ABool true).
Definition bf : res answer := Ok (ABool false).
Definition eI : res answer := Err PyIndexError.
Definition eV : res answer := Err PyValueError.
Definition eG : res answer := Err GateDoesntExistError.
Definition av (s : string) : res answer := Ok (AVec (bv s)).
Definition an (l : list nat) : res answer := Ok (ANats l).
Definition ao (s : string) : res answer := Ok (AOptVec (Some (bv s))).
Definition aN : res answer := Ok (AOptVec None).
Definition atb (rows : list string) : res answer := Ok (ATable (tb rows)).

(* the queries the harness asks of a function with n inputs and m outputs, in its order
   (harness/funccorr.py: queries) *)
Definition queries (n m : nat) : list query :=
  let vs := all_bool_vectors n in
  let js := seq 0 (S m) in
  [QSizes] ++ map QEvaluate vs
  ++ (if (n =? 0)%nat then [] else [QEvaluate (repeat true (n - 1))])
  ++ [QEvaluate (repeat false n ++ [true])]
  ++ flat_map (fun x => map (QEvaluateAt x) js) vs
  ++ (if (n =? 0)%nat then [] else [QEvaluateAt (repeat true (n - 1)) 0])
  ++ [QConstant] ++ map QConstantAt js
  ++ flat_map (fun inv => QMonotone inv :: map (fun j => QMonotoneAt j inv) js) [false; true]
  ++ [QSymmetric] ++ map QSymmetricAt js
  ++ flat_map (fun j => map (QDependent j) (seq 0 (n + 2))
                        ++ flat_map (fun i => [QEqualInput j i; QEqualInputNeg j i]) (seq 0 (n + 1))
                        ++ [QSignificant j]) js
  ++ map QFindNegations ([[]] ++ map (fun j => [j]) js
                         ++ (if (2 <=? m)%nat then [[0; 1]; [1; 0]] else [])
                         ++ (if (1 <=? m)%nat then [[0; 0]; [0; m]] else []))
  ++ [QTruthTable].

(* memoised circuit: evaluate / evaluate_at are computed once for every input vector of the right
   length (and every output index up to one past the last) and then looked up; any other argument
   is computed directly.  Proofs/FuncProtoExt.v: the queries on it are the queries on the circuit. *)
Definition memo {K V} (keqb : K -> K -> bool) (f : K -> V) (keys : list K) : K -> V :=
  let tbl := map (fun k => (k, f k)) keys in
  fun x => (fix look (l : list (K * V)) : V :=
              match l with
              | [] => f x
              | (k, v) :: r => if keqb x k then v else look r
              end) tbl.

Definition circ_rep_memo (c : circuit) : frep :=
  let r := circ_rep c in
  let xs := all_bool_vectors (r_n r) in
  let ev := memo bvec_eqb (r_ev r) xs in
  let at_ := memo (fun a b => bvec_eqb (fst a) (fst b) && (snd a =? snd b)%nat)
                  (fun xj => r_ev_at r (fst xj) (snd xj))
                  (flat_map (fun x => map (fun j => (x, j)) (seq 0 (S (r_m r)))) xs) in
  mkRep (r_n r) (r_m r) ev (fun x j => at_ (x, j)).

(* answers in the order of `queries`; a length mismatch fails *)
Fixpoint check_answers (run : query -> res answer) (qs : list query) (ans : list (res answer)) : bool :=
  match qs, ans with
  | [], [] => true
  | q :: qs', a :: ans' => res_eqb answer_eqb (run q) a && check_answers run qs' ans'
  | _, _ => false
  end.

Definition check_class_q {R} (make : res R) (run : R -> query -> res answer) (qs : list query)
           (expected : res (list (res answer))) : bool :=
  match make, expected with
  | Ok r, Ok ans => check_answers (run r) qs ans
  | Err e, Err e' => err_beq e e'
  | _, _ => false
  end.

Inductive fcase : Type :=
(* one Boolean function given by its table: circuit (dump of the circuit the harness built),
   TruthTable(table), PyFunction(table_callable table, n) *)
| CFunc (n : nat) (table : list bvec) (c : option circuit) (cq tq pq : res (list qres))
(* the same with the standard query list `queries n (length table)` left implicit *)
| CFuncQ (n : nat) (table : list bvec) (c : option circuit) (ca ta pa : res (list (res answer)))
(* list(input_iterator_with_fixed_sum(n, k, negations=negs)) *)
| CIter (n k : nat) (negs : option bvec) (r : res (list bvec))
(* TruthTable(table): (input_size, output_size, _table_t) *)
| CTTMake (table : list bvec) (r : res (nat * nat * list bvec))
(* TruthTableModel(table): sizes, check, check_at, get_model_truth_table, define *)
| CTModel (table : list (list tri)) (sizes : res (nat * nat))
          (checks : list (bvec * res (list tri))) (check_ats : list (bvec * nat * res tri))
          (defs : list (definition * res (list bvec * list (bvec * res bvec))))
(* PyFunctionModel(table_callable table, n[, output_size]) *)
| CPModel (table : list (list tri)) (n : nat) (out : option nat) (sizes : res (nat * nat))
          (checks : list (bvec * res (list tri))) (check_ats : list (bvec * nat * res tri))
          (mtt : res (list (list tri)))
          (defs : list (definition * (res (list bvec) * list (bvec * res bvec))))
(* PyFunction.from_int_unary_func(lambda i: tbl[i], in_len, out_len, big_endian) *)
| CIntUnary (tbl : list nat) (in_len out_len : nat) (big_endian : bool) (sizes : res (nat * nat))
            (evs : list (bvec * res bvec))
| CIntBinary (tbl : list (list nat)) (in_len out_len : nat) (big_endian : bool) (sizes : res (nat * nat))
             (evs : list (bvec * res bvec))
(* core/utils.py *)
| CUtils (i2c : list (bvec * nat)) (c2i : list (nat * nat * bvec)) (gbv : list (nat * nat * nat * res bool)).

Definition pair_eqb {A B} (ea : A -> A -> bool) (eb : B -> B -> bool) (x y : A * B) : bool :=
  ea (fst x) (fst y) && eb (snd x) (snd y).

Definition sizes_of (r : frep) : nat * nat := (r_n r, r_m r).

Definition check_evs (ev : bvec -> res bvec) (evs : list (bvec * res bvec)) : bool :=
  forallb (fun p => res_eqb bvec_eqb (ev (fst p)) (snd p)) evs.

Definition check_fcase (x : fcase) : bool :=
  match x with
  | CFunc n table c cq tq pq =>
    match c with
    | Some c => check_class (Ok c) circuit_query cq
    | None => true
    end
    && check_class (tt_make table) tt_query tq
    && check_class (py_make (table_callable table) n None) py_query pq
  | CFuncQ n table c ca ta pa =>
    let qs := queries n (length table) in
    match c with
    | Some c => check_class_q (Ok (circ_rep_memo c)) (run_query ClsCircuit) qs ca
    | None => true
    end
    && check_class_q (tt_make table) tt_query qs ta
    && check_class_q (py_make (table_callable table) n None) py_query qs pa
  | CIter n k negs r => res_eqb table_eqb (fixed_sum n k negs) r
  | CTTMake table r =>
    res_eqb (pair_eqb (pair_eqb Nat.eqb Nat.eqb) table_eqb)
            (do t <- tt_make table; Ok (tt_n t, length (tt_table t), tt_t t)) r
  | CTModel table sizes checks check_ats defs =>
    match tm_make table, sizes with
    | Err e, Err e' => err_beq e e'
    | Ok t, Ok s =>
      pair_eqb Nat.eqb Nat.eqb (tm_n t, length (tm_table t)) s
      && forallb (fun p => res_eqb tris_eqb (tm_check t (fst p)) (snd p)) checks
      && forallb (fun p => res_eqb tri_eqb (tm_check_at t (fst (fst p)) (snd (fst p))) (snd p)) check_ats
      && forallb (fun p =>
           match tm_define t (fst p), snd p with
           | Err e, Err e' => err_beq e e'
           | Ok f, Ok (tab, evs) =>
             table_eqb (tt_table f) tab && check_evs (r_ev (tt_rep f)) evs
           | _, _ => false
           end) defs
    | _, _ => false
    end
  | CPModel table n out sizes checks check_ats mtt defs =>
    let func := table_callable table in
    let mk := match out with
              | Some m => Ok (mkPM n m func)
              | None => do r <- func (repeat false n); Ok (mkPM n (length r) func)
              end in
    match mk, sizes with
    | Err e, Err e' => err_beq e e'
    | Ok p, Ok s =>
      pair_eqb Nat.eqb Nat.eqb (pm_n p, pm_m p) s
      && forallb (fun q => res_eqb tris_eqb (pm_check p (fst q)) (snd q)) checks
      && forallb (fun q => res_eqb tri_eqb (pm_check_at p (fst (fst q)) (snd (fst q))) (snd q)) check_ats
      && res_eqb (all_eqb tris_eqb) (pm_model_truth_table p) mtt
      && forallb (fun q =>
           let f := py_rep (pm_define p (fst q)) in
           res_eqb table_eqb (g_truth_table f) (fst (snd q)) && check_evs (r_ev f) (snd (snd q))) defs
    | _, _ => false
    end
  | CIntUnary tbl in_len out_len be sizes evs =>
    match from_int_unary_func (fun i => nth i tbl 0) in_len out_len be, sizes with
    | Err e, Err e' => err_beq e e'
    | Ok p, Ok s => pair_eqb Nat.eqb Nat.eqb (py_n p, py_m p) s && check_evs (py_func p) evs
    | _, _ => false
    end
  | CIntBinary tbl in_len out_len be sizes evs =>
    match from_int_binary_func (fun i j => nth j (nth i tbl []) 0) in_len out_len be, sizes with
    | Err e, Err e' => err_beq e e'
    | Ok p, Ok s => pair_eqb Nat.eqb Nat.eqb (py_n p, py_m p) s && check_evs (py_func p) evs
    | _, _ => false
    end
  | CUtils i2c c2i gbv =>
    forallb (fun p => Nat.eqb (index_of (fst p)) (snd p)) i2c
    && forallb (fun p => bvec_eqb (canonical_index_to_input (fst (fst p)) (snd (fst p))) (snd p)) c2i
    && forallb (fun p => let '(v, i, s, r) := p in res_eqb Bool.eqb (get_bit_value v i s) r) gbv
  end.
