(* Case formats and checkers for the C04 correspondence (harness/patcorr.py). *)
Require Import Cirbo.Model.Base Cirbo.Model.Gate Cirbo.Model.Circuit Cirbo.Model.Eval
        Cirbo.Model.Connect Cirbo.Model.History Cirbo.Model.ConeSem Cirbo.Model.PatternSim
        Cirbo.Model.SubcircuitValidator.
Require Import Cirbo.Generated.GateTypes Cirbo.Generated.PatternOps.

Definition nlist_eqb : list N -> list N -> bool := all_eqb N.eqb.

(* _PatternOperations(n).eval_pattern(operands, name) *)
Definition pat_case : Type := (N * string * list N * res N)%type.
Definition check_pat_case (x : pat_case) : bool :=
  let '(n, name, ops, r) := x in
  res_eqb N.eqb (eval_pattern_str (max_pattern n) ops name) r.

(* the same through gate_type.name *)
Definition gpat_case : Type := (N * gtype * list N * res N)%type.
Definition check_gpat_case (x : gpat_case) : bool :=
  let '(n, t, ops, r) := x in
  res_eqb N.eqb (eval_pattern (max_pattern n) t ops) r.

(* _PatternOperations(n).max_pattern and _generate_inputs_tt(n) *)
Definition tt_case : Type := (N * N * list N)%type.
Definition check_tt_case (x : tt_case) : bool :=
  let '(n, mp, tts) := x in
  N.eqb (max_pattern n) mp && nlist_eqb (generate_inputs_tt n) tts.

(* _Subcircuit.evaluate_truth_table_with_dont_cares *)
Definition obool_eqb (a b : option bool) : bool :=
  match a, b with
  | Some x, Some y => Bool.eqb x y
  | None, None => true
  | _, _ => false
  end.
Definition dc_case : Type := (nat * list N * list (list bool) * list (list (option bool)))%type.
Definition check_dc_case (x : dc_case) : bool :=
  let '(n, pats, care, tbl) := x in
  all_eqb (all_eqb obool_eqb) (tt_with_dont_cares n pats care) tbl.

(* one cone of _get_subcircuits: leaves (= reversed _Subcircuit.inputs), nodes (= gates),
   the patterns of all leaves and nodes, outputs, size *)
Definition cone_case : Type :=
  (circuit * list label * list label * list (label * N) * list label * nat)%type.
Definition check_cone_case (x : cone_case) : bool :=
  let '(c, leaves, nodes, pats, outs, sz) := x in
  match simulate_cone c leaves nodes with
  | Ok d => forallb (fun lp : label * N => N.eqb (pat_get d (fst lp)) (snd lp)) pats
            && forallb (fun k => dmem pats k) (dkeys d)
  | Err _ => false
  end
  && res_eqb labels_eqb (cone_outputs c leaves nodes) (Ok outs)
  && res_eqb Nat.eqb (cone_size c leaves nodes) (Ok sz).
(* the hypotheses of the truth-table theorem hold for this cone (statistics) *)
Definition cone_case_ok (x : cone_case) : bool :=
  let '(c, leaves, nodes, _, _, _) := x in nodupb leaves && cone_okb c leaves [] nodes.

(* _eval_dont_cares: inputs_tt of one subcircuit, as a set *)
Definition care_case : Type := (circuit * list label * list (list bool))%type.
Definition check_care_case (x : care_case) : bool :=
  let '(c, leaves, care) := x in
  match reachable_vectors c leaves with
  | Ok vs => same_vector_set vs care
  | Err _ => false
  end.

(* a recorded call of Circuit.replace_subcircuit *)
Definition step_case : Type := (circuit * circuit * dict label * dict label * string * res circuit)%type.
Definition check_step_replay (x : step_case) : bool :=
  let '(before, sub, imap, omap, fresh, r) := x in
  res_eqb circuit_eqb (replace_subcircuit before sub imap omap fresh) r.

(* validation of a recorded step that returned normally *)
Definition val_case : Type :=
  (circuit * circuit * list label * list label * option (list (list bool)))%type.
Definition check_val_case (x : val_case) : bool :=
  let '(before, after, leaves, outs, care) := x in
  check_subst before after leaves outs care
  && match care with Some K => care_covers before leaves K | None => true end.
(* cones only, without the frame conditions *)
Definition check_val_case_cones (x : val_case) : bool :=
  let '(before, after, leaves, outs, care) := x in check_step before after leaves outs care.

(* a recorded step of the all-outputs-trivial branch: output o merged into leaf l *)
Definition merge_case : Type :=
  (circuit * circuit * list label * label * label * option (list (list bool)))%type.
Definition check_merge_case (x : merge_case) : bool :=
  let '(before, after, leaves, o, l, care) := x in
  check_merge before after leaves o l care
  && match care with Some K => care_covers before leaves K | None => true end.

(* diagnostics: the components of check_val_case, one at a time *)
Definition val_frame_order (x : val_case) : bool :=
  let '(before, after, leaves, outs, care) := x in frame_order after.
Definition val_frame_leaves (x : val_case) : bool :=
  let '(before, after, leaves, outs, care) := x in frame_leaves before after leaves outs.
Definition val_frame_users (x : val_case) : bool :=
  let '(before, after, leaves, outs, care) := x in frame_users before after outs.
Definition val_frame_scope (x : val_case) : bool :=
  let '(before, after, leaves, outs, care) := x in frame_scope before after leaves outs.
Definition val_care_covers (x : val_case) : bool :=
  let '(before, after, leaves, outs, care) := x in
  match care with Some K => care_covers before leaves K | None => true end.
