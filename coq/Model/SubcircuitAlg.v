(* Hand-written models of the pure parts of cirbo/minimization/subcircuit.py that Model/PatternSim.v does not cover
   (the conventions for strings of '0' / '1', _get_internal_gates, the classification of the outputs of a subcircuit,
   the cut filtering and the closure of the node sets of _get_subcircuits).  translator/t21_subcircuit_alg.py
   regenerates the code from the source (Generated/SubcircuitAlgGen.v) and Proofs/SubcircuitAlgGen*.v prove the
   generated functions equal to PatternSim.v and to the functions of this file. *)
Require Import Cirbo.Model.Base Cirbo.Model.Gate Cirbo.Model.Circuit Cirbo.Model.Eval Cirbo.Model.PatternSim.
Require Import Cirbo.Generated.GateTypes Cirbo.Generated.PatternOps.
Require Import Cirbo.Model.SubcircuitPrims.

(* ---- inputs_tt: a leaf-value vector is the string of its '0' / '1' characters ---- *)
Definition bit_str (b : bool) : string := if b then "1" else "0".
Definition str_of_bits (v : list bool) : string := String.concat "" (map bit_str v).
Fixpoint bits_of_string (s : string) : option (list bool) :=
  match s with
  | EmptyString => Some []
  | String c r =>
    match bits_of_string r with
    | Some v => if Ascii.eqb c "0" then Some (false :: v) else if Ascii.eqb c "1" then Some (true :: v) else None
    | None => None
    end
  end.
(* the care set denoted by a list of strings (a string with another character denotes no vector: it can never be
   equal to ''.join of '0' / '1' characters) *)
Definition care_of_strings (l : list string) : list (list bool) :=
  flat_map (fun s => match bits_of_string s with Some v => [v] | None => [] end) l.
