(* Hand-written models of the pure parts of cirbo/minimization/subcircuit.py that Model/PatternSim.v does not cover
   (the conventions for strings of '0' / '1', _get_internal_gates, the classification of the outputs of a subcircuit,
   the cut filtering and the closure of the node sets of _get_subcircuits).  translator/t21_subcircuit_alg.py
   regenerates the code from the source (Generated/SubcircuitAlgGen.v) and Proofs/SubcircuitAlgGen*.v prove the
   generated functions equal to PatternSim.v and to the functions of this file. *)
Require Import Cirbo.Model.Base Cirbo.Model.Gate Cirbo.Model.Circuit Cirbo.Model.Eval Cirbo.Model.PatternSim.
Require Import Cirbo.Generated.GateTypes Cirbo.Generated.PatternOps.
Require Import Cirbo.Model.SubcircuitPrims.

(* ---- inputs_tt: a leaf-value vector is the string of its '0' / '1' characters ---- *)
Definition bit_str (b : bool) : string := if b then "1" else "0".
Definition str_of_bits (v : list bool) : string := String.concat "" (map bit_str v).
Fixpoint bits_of_string (s : string) : option (list bool) :=
  match s with
  | EmptyString => Some []
  | String c r =>
    match bits_of_string r with
    | Some v => if Ascii.eqb c "0" then Some (false :: v) else if Ascii.eqb c "1" then Some (true :: v) else None
    | None => None
    end
  end.
(* the care set denoted by a list of strings (a string with another character denotes no vector: it can never be
   equal to ''.join of '0' / '1' characters) *)
Definition care_of_strings (l : list string) : list (list bool) :=
  flat_map (fun s => match bits_of_string s with Some v => [v] | None => [] end) l.

(* ---- _get_internal_gates: breadth-first search from the outputs down to the inputs ----
   visited is the set of labels that were ever put into a queue (label_is_visited); one visited set is shared by the
   searches from all outputs; a label is recorded when it is taken from the queue and is neither an input nor an
   output; the operands of an input are not expanded.  fuel counts the evaluations of the loop condition
   `while queue` of ONE search (the generated code has this shape; Err OutOfFuel also when the queue is empty). *)
Definition bfs_visit (vq : list label * list label) (o : label) : list label * list label :=
  if memb o (fst vq) then vq else (fst vq ++ [o], snd vq ++ [o]).

Fixpoint bfs_internal (fuel : nat) (c : circuit) (ins outs acc visited queue : list label)
  : res (list label * list label) :=
  match fuel with
  | O => Err OutOfFuel
  | S fuel' =>
    match queue with
    | [] => Ok (acc, visited)
    | l :: q =>
      let acc' := if memb l ins || memb l outs then acc else acc ++ [l] in
      if memb l ins then bfs_internal fuel' c ins outs acc' visited q else
      do g <- get_gate c l;
      let vq := fold_left bfs_visit (gops g) (visited, q) in
      bfs_internal fuel' c ins outs acc' (fst vq) (snd vq)
    end
  end.

Definition internal_step (fuel : nat) (c : circuit) (ins outs : list label) (av : list label * list label)
           (o : label) : res (list label * list label) :=
  if memb o (snd av) then bfs_internal fuel c ins outs (fst av) (snd av) []
  else bfs_internal fuel c ins outs (fst av) (snd av ++ [o]) [o].

Definition internal_gates (fuel : nat) (c : circuit) (ins outs : list label) : res (list label) :=
  do r <- foldM (internal_step fuel c ins outs) outs ([], []);
  Ok (fst r).

(* ---- the classification of the outputs of one subcircuit inside minimize_subcircuits ----
   found_patterns maps a pattern to the label that owns it: first the leaves (a later leaf with the same pattern
   replaces an earlier one), then the non-trivial outputs in order.  An output whose pattern is already owned is
   `trivial` (outputs_mapping: equal to that leaf / earlier output); else, if the complement mx - p is owned, it is
   `negated` (outputs_negation_mapping); else it is filtered (handed to the synthesiser) and owns its pattern.
   mx - p is the truncated subtraction of N (exact for p <= mx, which holds for simulated patterns). *)
Record classification : Type := mkClass {
  cl_found : list (N * label);
  cl_filtered : list label;          (* the set filtered_outputs *)
  cl_filtered_lst : list label;
  cl_trivial : dict label;           (* outputs_mapping *)
  cl_negated : dict label            (* outputs_negation_mapping *)
}.

Definition found_of_leaves (pats : dict N) (leaves : list label) : list (N * label) :=
  fold_left (fun fp l => py_adict_set N.eqb fp (pat_get pats l) l) leaves [].

Definition classify_step (pats : dict N) (mx : N) (r : classification) (o : label) : classification :=
  let p := pat_get pats o in
  match py_adict_find N.eqb (cl_found r) p with
  | Some l => mkClass (cl_found r) (cl_filtered r) (cl_filtered_lst r) (dset (cl_trivial r) o l) (cl_negated r)
  | None =>
    match py_adict_find N.eqb (cl_found r) (mx - p)%N with
    | Some l => mkClass (cl_found r) (cl_filtered r) (cl_filtered_lst r) (cl_trivial r) (dset (cl_negated r) o l)
    | None => mkClass (py_adict_set N.eqb (cl_found r) p o) (py_set_add (cl_filtered r) o)
                      (cl_filtered_lst r ++ [o]) (cl_trivial r) (cl_negated r)
    end
  end.

Definition classify_outputs (pats : dict N) (leaves outs : list label) : classification :=
  fold_left (classify_step pats (max_pattern (N.of_nat (length leaves)))) outs
            (mkClass (found_of_leaves pats leaves) [] [] [] []).

(* ---- _get_subcircuits: the cut filtering ----
   cut_nodes maps a cut (tuple of labels) to a set of nodes; a missing key reads as the empty set. *)
Definition cm_get {V} (m : list (list label * V)) (k : list label) (dflt : V) : V := py_adict_get labels_eqb m k dflt.
Definition cm_set {V} (m : list (list label * V)) (k : list label) (v : V) : list (list label * V) :=
  py_adict_set labels_eqb m k v.

(* is_nested_cut(cut1, cut2): every gate of cut1 is a node of some sub-cut of cut2 *)
Definition nested_cut (cn : list (list label * list label)) (cut1 cut2 : list label) : bool :=
  forallb (fun g => existsb (fun sub => memb g (cm_get cn sub [])) (py_powerset cut2)) cut1.

Fixpoint take_while {A} (p : A -> bool) (l : list A) : list A :=
  match l with
  | [] => []
  | x :: r => if p x then x :: take_while p r else []
  end.

(* one cut of the (length-sorted) list: it is dropped when a sub-cut of it was dropped, when it is nested in a cut
   kept so far, or when it is nested in a later cut that is not longer; is_removed records the dropped cuts *)
Definition filter_step (cn : list (list label * list label)) (cuts : list (list label))
           (st : list (list label) * list (list label * bool)) (ic : N * list label)
  : list (list label) * list (list label * bool) :=
  let good := fst st in
  let cut := snd ic in
  let mark (b : bool) (r : list (list label * bool)) := if b then cm_set r cut true else r in
  let rem1 := mark (existsb (fun sub => cm_get (snd st) sub false) (py_powerset cut)) (snd st) in
  if cm_get rem1 cut false then (good, rem1) else
  let rem2 := mark (existsb (nested_cut cn cut) good) rem1 in
  if cm_get rem2 cut false then (good, rem2) else
  let later := take_while (fun nc => (py_len nc <=? py_len cut)%N) (skipn (S (N.to_nat (fst ic))) cuts) in
  let rem3 := mark (existsb (nested_cut cn cut) later) rem2 in
  if cm_get rem3 cut false then (good, rem3) else (good ++ [cut], rem3).

Definition filter_cuts (cn : list (list label * list label)) (cuts : list (list label)) : list (list label) :=
  fst (fold_left (filter_step cn cuts) (py_enumerate cuts) ([], [])).

(* ---- _get_subcircuits: the node set of a kept cut is the union of the node sets of its sub-cuts, closed under
   operands down to the leaves of the cut (depth first from an explicit stack; fuel counts the evaluations of the
   loop condition `while stack`) ---- *)
Definition union_step (cut : list label) (cn : list (list label * list label)) (sub : list label) :=
  cm_set cn cut (py_set_update (cm_get cn cut []) (cm_get cn sub [])).

Definition close_step (cut : list label) (cs : list (list label * list label) * list label) (op : label) :=
  if negb (memb op cut) && negb (memb op (cm_get (fst cs) cut []))
  then (cm_set (fst cs) cut (py_set_add (cm_get (fst cs) cut []) op), snd cs ++ [op]) else cs.

Fixpoint close_down (fuel : nat) (c : circuit) (cut : list label) (cn : list (list label * list label))
         (stack : list label) : res (list (list label * list label)) :=
  match fuel with
  | O => Err OutOfFuel
  | S fuel' =>
    match rev stack with
    | [] => Ok cn
    | top :: below =>
      do g <- get_gate c top;
      let cs := fold_left (close_step cut) (gops g) (cn, rev below) in
      close_down fuel' c cut (fst cs) (snd cs)
    end
  end.

(* set_iter: the iteration order of a Python set (see Generated/SubcircuitAlgGen.v) *)
Definition fill_cut (set_iter : list label -> list label) (fuel : nat) (c : circuit)
           (cn : list (list label * list label)) (cut : list label) : res (list (list label * list label)) :=
  let cn1 := fold_left (union_step cut) (py_powerset cut) cn in
  close_down fuel c cut cn1 (filter (fun node => negb (memb node cut)) (set_iter (cm_get cn1 cut []))).
