(* Case format and checkers for the traversal correspondence (C20). *)
Require Import Cirbo.Model.Base Cirbo.Model.Gate Cirbo.Model.Circuit Cirbo.Model.Traverse
        Cirbo.Model.History.

Definition event_eqb (a b : event) : bool :=
  match a, b with
  | EvEnter x, EvEnter y | EvExit x, EvExit y | EvYield x, EvYield y
  | EvUnvisited x, EvUnvisited y => leqb x y
  | EvDiscover x s, EvDiscover y t => leqb x y && tstate_beq s t
  | EvEnd, EvEnd => true
  | _, _ => false
  end.

(* (mode, inverse, start gates, topsort_unvisited, expected log) *)
Definition tcase : Type := (tmode * bool * option (list label) * bool * res (list event))%type.

Definition check_tcase (c : circuit) (x : tcase) : bool :=
  let '(m, inv, starts, tsu, ex) := x in
  res_eqb (all_eqb event_eqb) (traverse m inv c starts tsu no_abort) ex.

Definition unit_eqb (a b : unit) : bool := true.

(* circuit, top_sort(inverse=False), top_sort(inverse=True), traversals, cycle check *)
Definition trav_case : Type :=
  (circuit * res (list label) * res (list label) * list tcase * res unit)%type.

Definition check_trav_case (x : trav_case) : bool :=
  let '(c, ts0, ts1, tcs, cyc) := x in
  res_eqb labels_eqb (top_sort false c) ts0
  && res_eqb labels_eqb (top_sort true c) ts1
  && forallb (check_tcase c) tcs
  && res_eqb unit_eqb (check_circuit_has_no_cycles c) cyc.
