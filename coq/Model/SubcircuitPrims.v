(* Fixed prelude of translator/t21_subcircuit_alg.py (hand written, NOT derived from the source): the Python
   built-ins that the pure parts of cirbo/minimization/subcircuit.py use.

   Conventions (repeated in the header of the translator and of Generated/SubcircuitAlgGen.v):
   - a Python int is an N; the result of a subtraction is a Z (exact), except `(1 << e) - 1` (exact in N) and
     `P - e` for a P that was bound to such a value (N, truncated at 0 as in translator T5: exact for e <= P);
     a list index of type Z follows Python for negative values;
   - str / Label -> string; list / tuple -> list; a Gate -> Gate.gate (its label is known statically);
     GateState -> Gate.st; a TriValue cell -> option bool (None = DontCare);
   - dict[Label, V] -> Base.dict V (insertion ordered); dict with int / tuple keys -> association list (the py_adict functions)
     with the key equality given explicitly; collections.defaultdict: d[k] on a missing key reads the default, the
     insertion of the key that Python performs is NOT modelled (the translator accepts such a read only when no
     statement can observe the key set, or when the read is guarded by `k in d`);
   - a Python set is the list of its distinct elements in order of first insertion; membership is memb; the
     ITERATION order of a set is not this order: list(s) / `for x in s` go through the parameter set_iter of the
     generated functions (see the generated file);
   - loops: foldM (no break / return), loopB (break / continue), loopM (return as well); `while` on explicit fuel. *)
From Coq Require Import DecimalString.
Require Import Cirbo.Model.Base Cirbo.Model.Gate Cirbo.Model.Circuit.
Require Import Cirbo.Generated.PatternOps.

(* ---- loops ---- *)
Inductive ctl (S R : Type) : Type := LContinue (s : S) | LBreak (s : S) | LReturn (r : R).
Arguments LContinue {S R} s.
Arguments LBreak {S R} s.
Arguments LReturn {S R} r.

(* for x in l: body   with break / continue / return; inl = the loop ended (or broke) in this state *)
Fixpoint loopM {A S R} (body : S -> A -> res (ctl S R)) (l : list A) (s : S) : res (S + R) :=
  match l with
  | [] => Ok (inl s)
  | x :: l' =>
    do c <- body s x;
    match c with
    | LContinue s' => loopM body l' s'
    | LBreak s' => Ok (inl s')
    | LReturn r => Ok (inr r)
    end
  end.

(* for x in l: body   with break / continue only: the body answers (true, s) for `break` *)
Fixpoint loopB {A S} (body : S -> A -> res (bool * S)) (l : list A) (s : S) : res S :=
  match l with
  | [] => Ok s
  | x :: l' => do r <- body s x; if fst r then Ok (snd r) else loopB body l' (snd r)
  end.

(* ---- ints and lists ---- *)
Definition py_len {A} (l : list A) : N := N.of_nat (length l).
Definition py_index {A} (l : list A) (i : N) : res A := nth_res l (N.to_nat i).        (* l[i], i >= 0 *)
Definition py_zindex {A} (l : list A) (i : Z) : res A :=                                (* l[i], any int *)
  let n := Z.of_nat (length l) in
  if (i <? - n)%Z || (n <=? i)%Z then Err PyIndexError
  else nth_res l (Z.to_nat (if (i <? 0)%Z then (i + n)%Z else i)).
Fixpoint set_nth {A} (l : list A) (i : nat) (v : A) : res (list A) :=
  match l, i with
  | [], _ => Err PyIndexError
  | _ :: t, O => Ok (v :: t)
  | x :: t, S i' => do t' <- set_nth t i' v; Ok (x :: t')
  end.
Definition py_setitem {A} (l : list A) (i : N) (v : A) : res (list A) := set_nth l (N.to_nat i) v.   (* l[i] = v *)
Definition py_range (a b : N) : list N :=                                               (* range(a, b) *)
  map (fun k => (a + N.of_nat k)%N) (seq 0 (N.to_nat (b - a))).
Definition py_enumerate {A} (l : list A) : list (N * A) := combine (nrange (py_len l)) l.
Definition py_list_nonempty {A} (l : list A) : bool := match l with [] => false | _ => true end.   (* bool(l) *)
Definition py_pop {A} (l : list A) : res (A * list A) :=                                (* l.pop() *)
  match rev l with x :: r => Ok (x, rev r) | [] => Err PyIndexError end.
Definition py_popleft {A} (l : list A) : res (A * list A) :=                            (* deque.popleft() *)
  match l with x :: r => Ok (x, r) | [] => Err PyIndexError end.
Definition py_bool_of_N (n : N) : bool := negb (N.eqb n 0).                             (* bool(n) *)

(* sorted(xs, key=f) / xs.sort(key=f): the keys are computed first, for all elements in order; the sort is
   stable: insertion after the last element whose key is not greater *)
Fixpoint py_sort_insert {A} (k : N) (x : A) (l : list (N * A)) : list (N * A) :=
  match l with
  | [] => [(k, x)]
  | (k', y) :: r => if (k' <=? k)%N then (k', y) :: py_sort_insert k x r else (k, x) :: l
  end.
Definition py_sort_keyed {A} (ks : list N) (xs : list A) : list A :=
  map snd (fold_left (fun acc kx => py_sort_insert (fst kx) (snd kx) acc) (combine ks xs) []).

(* sorted(<strings>): by the order of the characters (String.leb) *)
Fixpoint py_str_insert (x : string) (l : list string) : list string :=
  match l with
  | [] => [x]
  | y :: ys => if String.leb x y then x :: l else y :: py_str_insert x ys
  end.
Definition py_sorted_strs (l : list string) : list string := fold_right py_str_insert [] l.

(* itertools.combinations / more_itertools.powerset / itertools.product(xs, repeat=n) *)
Fixpoint py_combs {A} (l : list A) (k : nat) {struct l} : list (list A) :=
  match k, l with
  | O, _ => [[]]
  | S _, [] => []
  | S k', x :: xs => map (cons x) (py_combs xs k') ++ py_combs xs k
  end.
Definition py_powerset {A} (l : list A) : list (list A) :=
  concat (map (py_combs l) (seq 0 (S (length l)))).
Fixpoint py_product_nat {A} (xs : list A) (n : nat) : list (list A) :=
  match n with
  | O => [[]]
  | S n' => concat (map (fun x => map (cons x) (py_product_nat xs n')) xs)
  end.
Definition py_product {A} (xs : list A) (n : N) : list (list A) := py_product_nat xs (N.to_nat n).

(* ---- strings ---- *)
Definition py_str_of_N (n : N) : string := NilZero.string_of_uint (N.to_uint n).       (* str(n) *)
Definition py_join (sep : string) (l : list string) : string := String.concat sep l.    (* sep.join(l) *)

(* ---- sets of labels / strings ---- *)
Definition py_set_add (s : list label) (x : label) : list label := if memb x s then s else s ++ [x].
Definition py_set_of_list (l : list label) : list label := fold_left py_set_add l [].   (* set(l) *)
Definition py_set_update (s t : list label) : list label := fold_left py_set_add t s.   (* s.update(t) *)

(* ---- dicts ---- *)
Definition py_dict_getitem {V} (d : dict V) (k : label) : res V :=                      (* d[k] of a plain dict *)
  match dget d k with Some v => Ok v | None => Err PyKeyError end.
Definition py_ddict_get {V} (d : dict V) (k : label) (dflt : V) : V :=                  (* d[k] of a defaultdict *)
  match dget d k with Some v => v | None => dflt end.
Definition py_dict_of_pairs {V} (kvs : list (label * V)) : dict V :=                    (* {k: v for ...} *)
  fold_left (fun d kv => dset d (fst kv) (snd kv)) kvs [].
(* association lists with an explicit key equality (int keys: N.eqb, tuple-of-labels keys: labels_eqb) *)
Fixpoint py_adict_find {K V} (eqb : K -> K -> bool) (d : list (K * V)) (k : K) : option V :=
  match d with
  | [] => None
  | (k', v) :: d' => if eqb k k' then Some v else py_adict_find eqb d' k
  end.
Definition py_adict_mem {K V} (eqb : K -> K -> bool) (d : list (K * V)) (k : K) : bool :=   (* k in d *)
  match py_adict_find eqb d k with Some _ => true | None => false end.
Definition py_adict_get {K V} (eqb : K -> K -> bool) (d : list (K * V)) (k : K) (dflt : V) : V :=
  match py_adict_find eqb d k with Some v => v | None => dflt end.
Definition py_adict_getitem {K V} (eqb : K -> K -> bool) (d : list (K * V)) (k : K) : res V :=
  match py_adict_find eqb d k with Some v => Ok v | None => Err PyKeyError end.
Fixpoint py_adict_set {K V} (eqb : K -> K -> bool) (d : list (K * V)) (k : K) (v : V) : list (K * V) :=
  match d with
  | [] => [(k, v)]
  | (k', v') :: d' => if eqb k k' then (k', v) :: d' else (k', v') :: py_adict_set eqb d' k v
  end.
Definition py_adict_of_pairs {K V} (eqb : K -> K -> bool) (kvs : list (K * V)) : list (K * V) :=
  fold_left (fun d kv => py_adict_set eqb d (fst kv) (snd kv)) kvs [].

(* ---- gate states ---- *)
Definition py_state_truthy (v : st) : res bool :=                                        (* bool(v) *)
  match v with T => Ok true | F => Ok false | U => Err GateStateError end.
Definition py_int_of_state (v : st) : res N :=                                           (* int(v) *)
  match v with T => Ok 1%N | F => Ok 0%N | U => Err PyTypeError end.
Definition py_state_neq (a b : st) : bool := negb (st_beq a b).                          (* a != b *)
