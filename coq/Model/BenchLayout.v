(* Layouts of bench texts: an abstract syntax of lines with explicit spacing / letter-case /
   alias choices, its printer, and the netlist a list of lines denotes.  This is the grammar of
   "textual layouts of the same netlist" the layout theorem of C11 quantifies over
   (DESIGN.md section 7, C11): the order of lines is free (use before definition included),
   keywords and operator names in any letter case, spaces (0x20) wherever the parser strips
   them, full-line comments, blank lines, BUFF / vdd spellings, final newline present or not. *)
Require Import Cirbo.Model.Base Cirbo.Model.Gate Cirbo.Model.Circuit Cirbo.Model.Bench.
Require Import Cirbo.Generated.GateTypes Cirbo.Generated.BenchDispatch.

Fixpoint spaces (n : nat) : string :=
  match n with O => EmptyString | S n' => String ch_sp (spaces n') end.

Inductive item : Type :=
| IInput (kw : string) (l : label) (s1 s2 s3 : nat)
    (* kw "(" sp^s1 l sp^s2 ")" sp^s3          upper kw = "INPUT" *)
| IOutput (kw : string) (l : label) (s1 s2 s3 : nat)
| IGate (l : label) (s1 s2 : nat) (opn : string) (s3 : nat) (t : gtype)
        (ops : list (nat * label * nat)) (s4 s5 : nat)
    (* l sp^s1 "=" sp^s2 opn sp^s3 "(" args ")" sp^s5
       args = the operands, each with its own spaces before and after, joined by ",";
       for an empty operand list args = sp^s4;  opn spells (in any letter case) a key of the
       dispatch table that builds gates of type t *)
| IVdd (l : label) (s1 s2 : nat) (kw : string) (s3 : nat)
    (* l sp^s1 "=" sp^s2 kw sp^s3               upper kw = "VDD" *)
| IComment (text : string)                      (* "#" text *)
| IBlank.

Definition print_operand (x : nat * label * nat) : string :=
  (spaces (fst (fst x)) ++ snd (fst x) ++ spaces (snd x))%string.
Definition operand_label (x : nat * label * nat) : label := snd (fst x).

Definition print_args (ops : list (nat * label * nat)) (s4 : nat) : string :=
  match ops with
  | [] => spaces s4
  | _ => String.concat (String ch_comma EmptyString) (map print_operand ops)
  end.

Definition print_item (it : item) : string :=
  match it with
  | IInput kw l s1 s2 s3 | IOutput kw l s1 s2 s3 =>
    (kw ++ "(" ++ spaces s1 ++ l ++ spaces s2 ++ ")" ++ spaces s3)%string
  | IGate l s1 s2 opn s3 _ ops s4 s5 =>
    (l ++ spaces s1 ++ "=" ++ spaces s2 ++ opn ++ spaces s3 ++ "(" ++ print_args ops s4 ++ ")" ++ spaces s5)%string
  | IVdd l s1 s2 kw s3 =>
    (l ++ spaces s1 ++ "=" ++ spaces s2 ++ kw ++ spaces s3)%string
  | IComment text => String comment_char text
  | IBlank => EmptyString
  end.

(* every line terminated by "\n" (fin = true), or the last one not (fin = false) *)
Definition print_items (its : list item) (fin : bool) : string :=
  if fin then String.concat EmptyString (map (fun it => (print_item it ++ NL)%string) its)
  else String.concat NL (map print_item its).

(* ---- what the lines denote ---- *)
Definition item_effect (it : item) (c : circuit) : circuit :=
  match it with
  | IInput _ l _ _ _ => emplace_gate_raw c l INPUT []
  | IOutput _ l _ _ _ => set_outputs_raw c (outputs c ++ [l])
  | IGate l _ _ _ _ t ops _ _ => emplace_gate_raw c l t (map operand_label ops)
  | IVdd l _ _ _ _ => emplace_gate_raw c l ALWAYS_TRUE []
  | IComment _ | IBlank => c
  end.

(* the circuit the parser is claimed to build: the lines applied top to bottom *)
Definition denote (its : list item) : circuit :=
  fold_left (fun c it => item_effect it c) its empty_circuit.

(* the netlist as a set of definitions / declarations (independent of the fold above) *)
Definition item_def (it : item) : option (label * gate) :=
  match it with
  | IInput _ l _ _ _ => Some (l, mkGate INPUT [])
  | IGate l _ _ _ _ t ops _ _ => Some (l, mkGate t (map operand_label ops))
  | IVdd l _ _ _ _ => Some (l, mkGate ALWAYS_TRUE [])
  | _ => None
  end.
Fixpoint defs (its : list item) : list (label * gate) :=
  match its with
  | [] => []
  | it :: rest => match item_def it with Some d => d :: defs rest | None => defs rest end
  end.
Definition defined_labels (its : list item) : list label := map fst (defs its).
Fixpoint input_decls (its : list item) : list label :=
  match its with
  | [] => []
  | IInput _ l _ _ _ :: rest => l :: input_decls rest
  | _ :: rest => input_decls rest
  end.
Fixpoint output_decls (its : list item) : list label :=
  match its with
  | [] => []
  | IOutput _ l _ _ _ :: rest => l :: output_decls rest
  | _ :: rest => output_decls rest
  end.
(* the definition of l in the text (texts of interest define every label once) *)
Fixpoint find_def (ds : list (label * gate)) (l : label) : option gate :=
  match ds with
  | [] => None
  | (k, g) :: rest => if leqb l k then Some g else find_def rest l
  end.

(* the netlist written down literally: the definitions as a gate map, the declarations as
   input and output lists *)
Definition netlist_of (its : list item) : circuit :=
  mkCircuit (input_decls its) (output_decls its) (defs its) [] [].

(* ---- well-formed lines ---- *)
Definition item_ok (it : item) : bool :=
  match it with
  | IInput kw l _ _ _ => String.eqb (upper kw) input_kw && label_ok l
  | IOutput kw l _ _ _ => String.eqb (upper kw) output_kw && label_ok l
  | IGate l _ _ opn _ t ops _ _ =>
    label_ok l && forallb (fun x => label_ok (operand_label x)) ops
    && negb (String.eqb (upper opn) VDD_NAME)
    && match lookup_processing processings (upper opn) with
       | Some h => gtype_beq (htype h) t && handler_accepts h (List.length ops)
       | None => false
       end
  | IVdd l _ _ kw _ => label_ok l && String.eqb (upper kw) VDD_NAME
  | IComment text => negb (has_char ch_nl text)
  | IBlank => true
  end.

(* every operand is defined by some line, before or after its use *)
Definition item_operands (it : item) : list label :=
  match it with
  | IGate _ _ _ _ _ _ ops _ _ => map operand_label ops
  | _ => []
  end.
Definition operands_defined (its : list item) : bool :=
  forallb (fun it => forallb (fun o => memb o (defined_labels its)) (item_operands it)) its.

Definition text_ok (its : list item) : Prop :=
  Forall (fun it => item_ok it = true) its /\ operands_defined its = true.

(* ---- the canonical layout: what format_circuit prints ---- *)
Definition take_until (ch : ascii) (s : string) : string :=
  match find_char ch s with Some i => take i s | None => s end.
(* the operator name format_gate prints for type t *)
Definition opname (t : gtype) : string :=
  take_until ch_lb (drop 3 (format_gate EmptyString (mkGate t []))).

Definition canon_operands (ops : list label) : list (nat * label * nat) :=
  match ops with
  | [] => []
  | o :: rest => (0, o, 0)%nat :: map (fun x => (1, x, 0)%nat) rest
  end.
Definition canon_gate (kg : label * gate) : item :=
  IGate (fst kg) 1 1 (opname (gtyp (snd kg))) 0 (gtyp (snd kg)) (canon_operands (gops (snd kg))) 0 0.
Definition blank_after {A} (l : list A) : list item :=
  match l with [] => [IBlank; IBlank] | _ => [IBlank] end.
Definition canon_items (c : circuit) : list item :=
  map (fun l => IInput input_kw l 0 0 0) (inputs c) ++ blank_after (inputs c)
  ++ map canon_gate (non_input_gates c) ++ blank_after (non_input_gates c)
  ++ map (fun l => IOutput output_kw l 0 0 0) (outputs c).
Definition canon_fin (c : circuit) : bool :=
  match outputs c with [] => true | _ => false end.

(* ---- correspondence entry point: a layout, the text the harness printed from it, and what
        the implementation parsed from that text ---- *)
Definition check_layout_case (x : list item * bool * string * res circuit) : bool :=
  let '(its, fin, text, r) := x in
  String.eqb (print_items its fin) text
  && res_circuit_eqb (parse_bench text) r
  && (negb (forallb item_ok its && operands_defined its)
      || res_circuit_eqb (Ok (denote its)) r).
