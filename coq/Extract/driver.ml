(* driver for the extracted database sweep:
     driver <file> <aig|xaig> <lo1> <len1> [<lo2> <len2> ...]
   The file is parsed once by the extracted db_records; the requested ranges are cut out by the
   extracted slice_records, the full record list is dropped, and every record of every range is
   run through the extracted check_slice (= Model/DbCheck.check_entry).
   prints  RECORDS n / CHECKED m / BAD i ...   or   ERROR *)
open Dbcheck

let read_file f =
  let ic = open_in_bin f in
  let n = in_channel_length ic in
  let s = really_input_string ic n in
  close_in ic; s

let char_list_of_string s =
  let rec go i acc = if i < 0 then acc else go (i - 1) (s.[i] :: acc) in
  go (String.length s - 1) []

let nat_of_int n = let rec go i acc = if i = 0 then acc else go (i - 1) (S acc) in go n O
let int_of_nat n = let rec go n acc = match n with O -> acc | S m -> go m (acc + 1) in go n 0
let rec len_nat l acc = match l with [] -> acc | _ :: r -> len_nat r (acc + 1)

let () =
  let file = Sys.argv.(1) and basis = Sys.argv.(2) in
  let nranges = (Array.length Sys.argv - 3) / 2 in
  let ranges = List.init nranges (fun i -> (int_of_string Sys.argv.(3 + 2 * i), int_of_string Sys.argv.(4 + 2 * i))) in
  let basis = if basis = "aig" then aIG_BASIS else xAIG_BASIS in
  let parsed = db_records (char_list_of_string (read_file file)) in
  match parsed with
  | Err _ -> print_endline "ERROR"
  | Ok recs ->
    let n = len_nat recs 0 in
    let slices = List.map (fun (lo, len) -> (lo, slice_records recs (nat_of_int lo) (nat_of_int len))) ranges in
    (* from here on only the slices are alive *)
    let checked = ref 0 and bad = ref [] in
    Gc.compact ();
    List.iter (fun (lo, slice) ->
        checked := !checked + len_nat slice 0;
        bad := List.rev_append (List.map int_of_nat (check_slice basis slice (nat_of_int lo))) !bad) slices;
    Printf.printf "RECORDS %d\n" n;
    Printf.printf "CHECKED %d\n" !checked;
    print_string "BAD";
    List.iter (fun i -> Printf.printf " %d" i) (List.sort compare !bad);
    print_newline ()
