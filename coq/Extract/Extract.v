(* Extraction of the database sweep to OCaml (C17).  Only ExtrOcamlBasic / ExtrOcamlString
   are used; nat, N, positive stay the extracted inductive types. *)
Require Import Cirbo.Model.Base Cirbo.Model.Gate Cirbo.Model.DbCheck.
Require Extraction.
Require Import ExtrOcamlBasic ExtrOcamlString.
Extraction Language OCaml.
Extraction "dbcheck.ml" db_records slice_records check_slice sweep AIG_BASIS XAIG_BASIS.
